#!/bin/bash
# confirm_seed.sh <agentdir> <i> <newid> [extra g++ flags]: confirms a sub-agent's change in a scratch worktree of /repo (outside /repo and /verif):
# pristine build + demo (must exit 0), patch applied: all tests pass, demo exits non-zero. Prints one summary line; removes the worktree.
A=$1; I=$2; ID=$3; shift 3; XF="$@"
W=/tmp/confirm/$ID; L=/tmp/confirm/$ID.log
rm -rf $W; git -C /repo worktree prune; git -C /repo worktree add --detach -q $W HEAD || exit 3
cd $W
( cmake -G Ninja -S . -B _b -DBUILD_TESTS=ON -DBUILD_DOC=OFF && cmake --build _b -j3 ) > $L 2>&1 || { echo "$ID BUILD-FAILED(pristine)"; exit 3; }
LIBDIR=$(dirname $(find _b -name 'libcdns.so*' | head -1))
mkdir -p tmp
g++ -std=gnu++14 -msse4.2 $XF -Isrc -I_b/src -I_b $A/out/demo$I.cpp -L$LIBDIR -lcdns -lz -llzma -lpthread -Wl,-rpath,$PWD/$LIBDIR -o _b/demo >> $L 2>&1 || { echo "$ID DEMO-BUILD-FAILED"; exit 3; }
( cd $W; timeout 300 ./_b/demo ) >> $L 2>&1; d0=$?
git apply $A/out/patch$I.diff >> $L 2>&1 || { echo "$ID PATCH-FAILED"; exit 3; }
cmake --build _b -j3 >> $L 2>&1 || { echo "$ID BUILD-FAILED(patched)"; exit 3; }
T=$(find _b -name tests -type f -perm -u+x | head -1)
( cd $(dirname $T) && timeout 600 ./tests ) > $L.tests 2>&1; t=$?
np=$(grep -c '^\[       OK \]' $L.tests); nf=$(grep -c '^\[  FAILED  \]' $L.tests)
g++ -std=gnu++14 -msse4.2 $XF -Isrc -I_b/src -I_b $A/out/demo$I.cpp -L$LIBDIR -lcdns -lz -llzma -lpthread -Wl,-rpath,$PWD/$LIBDIR -o _b/demo >> $L 2>&1
( cd $W; timeout 300 ./_b/demo ) >> $L 2>&1; d1=$?
echo "$ID tests_rc=$t ok=$np failed=$nf demo_pristine=$d0 demo_patched=$d1"
cd /; git -C /repo worktree remove --force $W
