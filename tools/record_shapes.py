#!/usr/bin/env python3
"""Records, for every unit whose contract binds locals by position ($Lk), the sequence of local types of the function on the current tree
(contracts/local_shapes.json). Run on a tree where all checks pass, after editing such a contract."""
import sys, os, json, importlib
HERE = os.path.dirname(os.path.abspath(__file__))
sys.path.insert(0, os.path.join(HERE, '..', 'lib')); sys.path.insert(0, os.path.join(HERE, '..', 'contracts'))
import astload, driver
ast = astload.load()
driver.RECORD_SHAPES = {}
mods = ['enc_units', 'dec_units', 'dec2_units', 'ts_units', 'item_units', 'block_units', 'exp_units', 'rd_units', 'rdb_units', 'add_units', 'out_units', 'bt_units', 'misc_units', 'txt_units']
reg = {}
units = []
for m in mods:
    mod = importlib.import_module(m)
    for u in mod.UNITS:
        reg[u.id] = u
        units.append(u)
for u in units:
    if not isinstance(u, driver.Unit):
        continue
    try:
        for v in (u.variants or [None]):
            driver.build_c(ast, u, reg)
            break
    except Exception as e:
        print('skip', u.id, str(e)[:100])
json.dump(driver.RECORD_SHAPES, open(os.path.join(HERE, '..', 'contracts', 'local_shapes.json'), 'w'), indent=1, sort_keys=True)
print(len(driver.RECORD_SHAPES), 'shapes recorded')
