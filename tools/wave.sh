#!/bin/bash
# wave.sh <agentdir> <i> <newid> <prop> <wave> [g++ flags]: confirm (scratch worktree), import into seeded/, evaluate with the property's quick check on a scratch copy
A=$1; I=$2; ID=$3; P=$4; WV=$5; shift 5
line=$(/verif/tools/confirm_seed.sh $A $I $ID "$@")
echo "$line"
case "$line" in *"tests_rc=0"*"failed=0 demo_pristine=0 demo_patched="[1-9]*) ;; *) echo "$ID NOT-CONFIRMED"; exit 1;; esac
cd /verif && tools/import_seed.py $A $I $ID $P $WV "$line" && EVAL_SCRATCH=/tmp/cdns_eval5 tools/eval_seeded.sh $ID
