#!/bin/bash
# Applies each seeded change to /repo, runs the checks named for it, restores /repo. Usage: eval_seeded.sh [ids...]
# Output: one line per (mutant, property check): exit code and the VIOLATION lines.
cd /verif
ids="$@"; [ -z "$ids" ] && ids=$(ls seeded)
for id in $ids; do
  d=seeded/$id
  props=$(python3 -c "import json;m=json.load(open('$d/meta.json'));print(' '.join(m.get('run_checks',[m['property']])))")
  git -C /repo checkout -q -- . ; git -C /repo apply $PWD/$d/patch.diff || { echo "$id APPLY-FAILED"; continue; }
  for p in $props; do
    s=$(date +%s)
    ./check $p --tier quick > /tmp/w/seed_${id}_$p.log 2>&1; rc=$?
    e=$(date +%s)
    echo "$id check=$p rc=$rc $((e-s))s :: $(grep -c '^VIOLATION' /tmp/w/seed_${id}_$p.log) violation lines :: $(grep '^  failed obligation' /tmp/w/seed_${id}_$p.log | head -3 | cut -c22-110 | tr '\n' ';')"
  done
  git -C /repo checkout -q -- .
done
