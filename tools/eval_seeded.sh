#!/bin/bash
# Applies each seeded change to a scratch copy of /repo's working tree (outside /repo and /verif), runs the property's quick check on
# that copy (VERIF_REPO), removes the copy. Usage: eval_seeded.sh [ids...]   Output: one line per (change, check).
cd /verif
S=${EVAL_SCRATCH:-/tmp/cdns_eval}
mkdir -p $S/logs
ids="$@"; [ -z "$ids" ] && ids=$(ls seeded)
for id in $ids; do
  d=$PWD/seeded/$id
  props=$(python3 -c "import json;m=json.load(open('$d/meta.json'));print(' '.join(m.get('run_checks',[m['property']])))")
  W=$S/$id; rm -rf $W; mkdir -p $W; cp -r /repo/src $W/src
  ( cd $W && git init -q . && git apply $d/patch.diff ) || { echo "$id APPLY-FAILED"; rm -rf $W; continue; }
  for p in $props; do
    s=$(date +%s)
    VERIF_REPO=$W VERIF_CACHE=$W/cache VERIF_EVIDENCE=$S/evidence VERIF_REPLAYS=$S/replays ./check $p --tier ${TIER:-quick} > $S/logs/seed_${id}_$p.log 2>&1; rc=$?
    e=$(date +%s)
    echo "$id check=$p rc=$rc $((e-s))s :: $(grep -c '^VIOLATION' $S/logs/seed_${id}_$p.log) violation lines :: $(grep '^  failed obligation' $S/logs/seed_${id}_$p.log | head -3 | cut -c22-110 | tr '\n' ';') $(grep '^UNDECIDED' $S/logs/seed_${id}_$p.log | head -2 | cut -c1-160 | tr '\n' ';')"
  done
  rm -rf $W
done
