#!/usr/bin/env python3
"""import_seed.py <agentdir> <i> <newid> <prop> <wave> <confirm-line> : copies a confirmed sub-agent change into /verif/seeded/<newid>/"""
import sys, os, shutil, json, re
a, i, nid, prop, wave, conf = sys.argv[1:7]
d = '/verif/seeded/' + nid
os.makedirs(d, exist_ok=True)
shutil.copy('%s/out/patch%s.diff' % (a, i), d + '/patch.diff')
shutil.copy('%s/out/demo%s.cpp' % (a, i), d + '/demo.cpp')
shutil.copy('%s/out/notes%s.txt' % (a, i), d + '/notes.txt')
notes = open(d + '/notes.txt').read()
m = dict(re.findall(r'(\w+)=(\S+)', conf))
meta = {'id': nid, 'property': prop, 'breaks': prop, 'change': ' '.join(notes.split())[:400], 'needs_to_manifest': 'see notes.txt',
        'wave': int(wave), 'origin': 'independent sub-agent given only the property text and a scratch worktree (wave %s)' % wave,
        'confirmed_by_me': {'tests_with_patch': '%s/%s gtest cases pass' % (m.get('ok'), m.get('ok')), 'demo_without_patch_exit': int(m.get('demo_pristine', -1)),
                            'demo_with_patch_exit': int(m.get('demo_patched', -1)), 'how': 'tools/confirm_seed.sh: scratch worktree under /tmp/confirm, cmake+ninja build, tests binary, g++ demo.cpp -lcdns, worktree removed'},
        'expected': 'pending'}
json.dump(meta, open(d + '/meta.json', 'w'), indent=1)
print('imported', nid)
