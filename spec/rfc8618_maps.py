"""RFC 8618 section 7 (CDDL) transcribed as tables: structure -> member -> (key, CBOR kind, mandatory?).
Transcribed from the RFC text (from memory: the sandbox has no network), NOT from /repo's format_specification.h;
negative keys are the implementation-specific members this library documents (RFC 8618 section 6.2 allows negative keys).
'field' is the C++ member name in /repo the row is joined with (the join is checked against the AST: a member without a row
or a row without a member is an extraction break).
kinds: uint, nint-or-uint (int), bool, tstr, bstr, map:<Struct>, array:<elem kind>, time (array [secs, ticks])."""

MAPS = {
 'FilePreamble': [
   ('m_major_format_version', 0, 'uint', True), ('m_minor_format_version', 1, 'uint', True),
   ('m_private_version', 2, 'uint', False), ('m_block_parameters', 3, 'array:map:BlockParameters', True)],
 'BlockParameters': [('storage_parameters', 0, 'map:StorageParameters', True), ('collection_parameters', 1, 'map:CollectionParameters', False)],
 'StorageParameters': [
   ('ticks_per_second', 0, 'uint', True), ('max_block_items', 1, 'uint', True), ('storage_hints', 2, 'map:StorageHints', True),
   ('opcodes', 3, 'array:uint', True), ('rr_types', 4, 'array:uint', True), ('storage_flags', 5, 'uint', False),
   ('client_address_prefix_ipv4', 6, 'uint', False), ('client_address_prefix_ipv6', 7, 'uint', False),
   ('server_address_prefix_ipv4', 8, 'uint', False), ('server_address_prefix_ipv6', 9, 'uint', False),
   ('sampling_method', 10, 'tstr', False), ('anonymization_method', 11, 'tstr', False)],
 'StorageHints': [('query_response_hints', 0, 'uint', True), ('query_response_signature_hints', 1, 'uint', True),
                  ('rr_hints', 2, 'uint', True), ('other_data_hints', 3, 'uint', True)],
 'CollectionParameters': [
   ('query_timeout', 0, 'uint', False), ('skew_timeout', 1, 'uint', False), ('snaplen', 2, 'uint', False), ('promisc', 3, 'bool', False),
   ('interfaces', 4, 'array:tstr', False), ('server_address', 5, 'array:bstr', False), ('vlan_ids', 6, 'array:uint', False),
   ('filter', 7, 'tstr', False), ('generator_id', 8, 'tstr', False), ('host_id', 9, 'tstr', False)],
 'BlockPreamble': [('earliest_time', 0, 'time', False), ('block_parameters_index', 1, 'uint', False)],
 'BlockStatistics': [('processed_messages', 0, 'uint', False), ('qr_data_items', 1, 'uint', False), ('unmatched_queries', 2, 'uint', False),
                     ('unmatched_responses', 3, 'uint', False), ('discarded_opcode', 4, 'uint', False), ('malformed_items', 5, 'uint', False)],
 'ClassType': [('type', 0, 'uint', True), ('class_', 1, 'uint', True)],
 'QueryResponseSignature': [
   ('server_address_index', 0, 'uint', False), ('server_port', 1, 'uint', False), ('qr_transport_flags', 2, 'uint', False),
   ('qr_type', 3, 'uint', False), ('qr_sig_flags', 4, 'uint', False), ('query_opcode', 5, 'uint', False), ('qr_dns_flags', 6, 'uint', False),
   ('query_rcode', 7, 'uint', False), ('query_classtype_index', 8, 'uint', False), ('query_qdcount', 9, 'uint', False),
   ('query_ancount', 10, 'uint', False), ('query_nscount', 11, 'uint', False), ('query_arcount', 12, 'uint', False),
   ('query_edns_version', 13, 'uint', False), ('query_udp_size', 14, 'uint', False), ('query_opt_rdata_index', 15, 'uint', False),
   ('response_rcode', 16, 'uint', False)],
 'Question': [('name_index', 0, 'uint', True), ('classtype_index', 1, 'uint', True)],
 'RR': [('name_index', 0, 'uint', True), ('classtype_index', 1, 'uint', True), ('ttl', 2, 'uint', False), ('rdata_index', 3, 'uint', False)],
 'MalformedMessageData': [('server_address_index', 0, 'uint', False), ('server_port', 1, 'uint', False),
                          ('mm_transport_flags', 2, 'uint', False), ('mm_payload', 3, 'bstr', False)],
 'ResponseProcessingData': [('bailiwick_index', 0, 'uint', False), ('processing_flags', 1, 'uint', False)],
 'QueryResponseExtended': [('question_index', 0, 'uint', False), ('answer_index', 1, 'uint', False),
                           ('authority_index', 2, 'uint', False), ('additional_index', 3, 'uint', False)],
 'QueryResponse': [
   ('time_offset', 0, 'offset', False), ('client_address_index', 1, 'uint', False), ('client_port', 2, 'uint', False),
   ('transaction_id', 3, 'uint', False), ('qr_signature_index', 4, 'uint', False), ('client_hoplimit', 5, 'uint', False),
   ('response_delay', 6, 'int', False), ('query_name_index', 7, 'uint', False), ('query_size', 8, 'uint', False),
   ('response_size', 9, 'uint', False), ('response_processing_data', 10, 'map:ResponseProcessingData', False),
   ('query_extended', 11, 'map:QueryResponseExtended', False), ('response_extended', 12, 'map:QueryResponseExtended', False),
   ('asn', -1, 'tstr', False), ('country_code', -2, 'tstr', False), ('round_trip_time', -3, 'int', False)],
 'AddressEventCount': [('ae_type', 0, 'uint', True), ('ae_code', 1, 'uint', False), ('ae_address_index', 2, 'uint', True),
                       ('ae_transport_flags', 3, 'uint', False), ('ae_count', 4, 'uint', True)],
 'MalformedMessage': [('time_offset', 0, 'offset', False), ('client_address_index', 1, 'uint', False), ('client_port', 2, 'uint', False),
                      ('message_data_index', 3, 'uint', False)],
}

# storage hint bits (RFC 8618 section 7.3.1.1.1): bit -> member of the structure they govern
QR_HINTS = {0: 'time_offset', 1: 'client_address_index', 2: 'client_port', 3: 'transaction_id', 4: 'qr_signature_index',
            5: 'client_hoplimit', 6: 'response_delay', 7: 'query_name_index', 8: 'query_size', 9: 'response_size',
            10: 'response_processing_data', 11: 'query_question_sections', 12: 'query_answer_sections',
            13: 'query_authority_sections', 14: 'query_additional_sections', 15: 'response_answer_sections',
            16: 'response_authority_sections', 17: 'response_additional_sections'}
QR_SIG_HINTS = {0: 'server_address_index', 1: 'server_port', 2: 'qr_transport_flags', 3: 'qr_type', 4: 'qr_sig_flags',
                5: 'query_opcode', 6: 'qr_dns_flags', 7: 'query_rcode', 8: 'query_classtype_index', 9: 'query_qdcount',
                10: 'query_ancount', 11: 'query_nscount', 12: 'query_arcount', 13: 'query_edns_version', 14: 'query_udp_size',
                15: 'query_opt_rdata_index', 16: 'response_rcode'}
RR_HINTS = {0: 'ttl', 1: 'rdata_index'}
OTHER_HINTS = {0: 'malformed_messages', 1: 'address_event_counts'}

BLOCK_KEYS = {'block_preamble': 0, 'block_statistics': 1, 'block_tables': 2, 'query_responses': 3, 'address_event_counts': 4, 'malformed_messages': 5}
TABLE_KEYS = {'ip_address': 0, 'classtype': 1, 'name_rdata': 2, 'qr_sig': 3, 'qlist': 4, 'qrr': 5, 'rrlist': 6, 'rr': 7, 'malformed_message_data': 8}
