// Native replay for C03 (text renderers): GenericAddressEventCount::string() on a binary address of 1 byte (an address shortened to a
// prefix, or a malformed one). inet_ntop() is handed 4 bytes; the program re-runs itself under valgrind memcheck, which reports the use
// of bytes that do not belong to the address.
#include <cstdio>
#include <cstring>
#include <string>
#include <unistd.h>
#include <fcntl.h>
#include <sys/wait.h>
#include "interface.h"
int main(int argc, char** argv) {
    if (argc > 1 && !strcmp(argv[1], "child")) {
        CDNS::GenericAddressEventCount a;
        a.ae_type = CDNS::AddressEventTypeValues::tcp_reset;
        a.ae_count = 1;
        char* raw = new char[1]; raw[0] = 1;
        a.ip_address = std::string(raw, 1);
        delete[] raw;
        std::string s = a.string();
        return s.empty() ? 3 : 0;
    }
    pid_t pid = fork();
    if (pid == 0) {
        int devnull = open("/dev/null", 1); dup2(devnull, 2);
        execlp("valgrind", "valgrind", "-q", "--error-exitcode=9", argv[0], "child", (char*)0);
        _exit(2);
    }
    int st = 0; waitpid(pid, &st, 0);
    bool ran = WIFEXITED(st) && WEXITSTATUS(st) != 2;
    bool ok = WIFEXITED(st) && WEXITSTATUS(st) == 0;
    printf("REPLAY: %s GenericAddressEventCount::string() on a 1-byte address: %s\n", ok ? "OK" : "MISMATCH",
           !ran ? "valgrind could not be started" : ok ? "no memory error reported by valgrind memcheck" : "valgrind memcheck reports the use of bytes outside the address (uninitialised values in inet_ntop)");
    return ok ? 0 : 1;
}
