// Native replay for C11: two equal MalformedMessageData values added to one block must get the same index.
#include <cstdio>
#include <string>
#include "cdns.h"
using namespace CDNS;
int main() {
    FilePreamble fp; BlockParameters bp = fp.get_block_parameters(0);
    CdnsBlock blk(bp, 0);
    MalformedMessageData a, b;
    a.mm_payload = std::string("a malformed message payload that is longer than the inline buffer of std::string");
    b.mm_payload = std::string("a malformed message payload that is longer than the inline buffer of std::string");
    a.server_port = 53; b.server_port = 53;
    index_t ia = blk.add_malformed_message_data(a);
    index_t ib = blk.add_malformed_message_data(b);
    bool ok = (a == b) && ia == ib;
    printf("REPLAY: %s equal MalformedMessageData values got indices %u and %u\n", ok ? "OK" : "MISMATCH", ia, ib);
    return ok ? 0 : 1;
}
