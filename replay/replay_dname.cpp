// Native replay for C03 (text renderers): GenericResourceRecord::string() on a malformed wire-format name whose last label
// announces a byte that is not there. Every heap block is placed directly in front of an inaccessible page (replaced operator new),
// so a read or write past the end of the string's storage kills the child process.
#include <cstdio>
#include <cstdlib>
#include <new>
#include <string>
#include <unistd.h>
#include <sys/mman.h>
#include <sys/wait.h>
#include "interface.h"
static bool g_guard = false;
void* operator new(std::size_t n) {
    if (!g_guard) { void* p = std::malloc(n ? n : 1); if (!p) throw std::bad_alloc(); return p; }
    const std::size_t pg = 4096; std::size_t need = (n + pg - 1) / pg * pg;
    char* base = static_cast<char*>(mmap(nullptr, need + pg, PROT_READ | PROT_WRITE, MAP_PRIVATE | MAP_ANONYMOUS, -1, 0));
    if (base == MAP_FAILED) throw std::bad_alloc();
    mprotect(base + need, pg, PROT_NONE);
    return base + need - n;                       // the block ends exactly at the inaccessible page
}
void operator delete(void*) noexcept { }          // (leaks on purpose: blocks come from two allocators)
void operator delete(void*, std::size_t) noexcept { }
int main(int argc, char** argv) {
    int labels = argc > 1 ? atoi(argv[1]) : 24;
    pid_t pid = fork();
    if (pid == 0) {
        std::string n;
        for (int i = 0; i + 1 < labels; i++) { n.push_back('\x01'); n.push_back('a'); }
        n.push_back('\x01');                      // 2*labels-1 bytes; with 24 labels the copy's storage is 48 bytes
        CDNS::GenericResourceRecord r;
        g_guard = true;
        r.name = n;
        std::string s = r.string();
        _exit(s.empty() ? 3 : 0);
    }
    int st = 0; waitpid(pid, &st, 0);
    bool ok = WIFEXITED(st) && WEXITSTATUS(st) == 0;
    printf("REPLAY: %s GenericResourceRecord::string() on a %d-byte name of %d one-byte labels, the last one truncated: %s\n", ok ? "OK" : "MISMATCH",
           2 * labels - 1, labels, ok ? "completed" : "process killed by a signal (access past the end of the name's storage)");
    return ok ? 0 : 1;
}
