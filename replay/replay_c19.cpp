// Native replay for C19: a block is copied, the source is destroyed, then a value already present is added to the copy.
// Every heap block is mapped on its own pages and made inaccessible when freed (replaced operator new/delete), so a lookup through
// index-map keys that still refer to the source's storage kills the child process.
#include <cstdio>
#include <cstdlib>
#include <cstdint>
#include <new>
#include <memory>
#include <unistd.h>
#include <sys/mman.h>
#include <sys/wait.h>
#include "block.h"
static bool g_guard = false;
static const std::size_t PG = 4096;
void* operator new(std::size_t n) {
    if (!g_guard) { void* p = std::malloc(n ? n : 1); if (!p) throw std::bad_alloc(); return p; }
    std::size_t need = (n + 16 + PG - 1) / PG * PG;
    char* base = static_cast<char*>(mmap(nullptr, need, PROT_READ | PROT_WRITE, MAP_PRIVATE | MAP_ANONYMOUS, -1, 0));
    if (base == MAP_FAILED) throw std::bad_alloc();
    *reinterpret_cast<std::size_t*>(base) = need;          // header: size of the mapping
    return base + 16;
}
static void release(void* p) {
    if (!p) return;
    char* base = static_cast<char*>(p) - 16;
    if ((reinterpret_cast<std::uintptr_t>(base) & (PG - 1)) == 0 && g_guard) mprotect(base, *reinterpret_cast<std::size_t*>(base), PROT_NONE);   // freed: inaccessible
    // (blocks that came from malloc before the guard was switched on are leaked)
}
void operator delete(void* p) noexcept { release(p); }
void operator delete(void* p, std::size_t) noexcept { release(p); }
int main() {
    pid_t pid = fork();
    if (pid == 0) {
        g_guard = true;
        CDNS::BlockParameters bp;
        CDNS::ClassType ct; ct.type = 1; ct.class_ = 1;
        CDNS::CdnsBlock* a = new CDNS::CdnsBlock(bp, 0);
        CDNS::index_t i0 = a->add_classtype(ct);
        CDNS::CdnsBlock* b = new CDNS::CdnsBlock(*a);       // copy
        delete a;                                            // the source is destroyed
        CDNS::index_t i1 = b->add_classtype(ct);            // an equal value: must be found in the copy's own table
        _exit(i0 == i1 && b->get_classtype(i1) == ct ? 0 : 4);
    }
    int st = 0; waitpid(pid, &st, 0);
    bool ok = WIFEXITED(st) && WEXITSTATUS(st) == 0;
    printf("REPLAY: %s copy a block, destroy the source, add an equal class/type to the copy: %s\n", ok ? "OK" : "MISMATCH",
           ok ? "same index, no access to freed storage" : WIFSIGNALED(st) ? "process killed by a signal (the copy's index map refers to the destroyed source's storage)" : "a different index was returned");
    return ok ? 0 : 1;
}
