// Native replay of decoder counterexamples against the real CdnsDecoder.
// Input: P filler items (one-byte unsigned integers) that are consumed first, then the bytes under test.
// Oracle: an independent RFC 8949 reference reader written here.
#include <cstdio>
#include <cstdlib>
#include <cstring>
#include <string>
#include <vector>
#include <sstream>
#include <fstream>
#include <stdexcept>
#define private public
#include "cdns_decoder.h"
#undef private
using namespace CDNS;
#include "cbor_ref.h"
struct Ref { int st; unsigned long long val; size_t end; std::string str; bool indef; };
static bool head(const Bytes& b, size_t p, unsigned& mt, unsigned& ai, unsigned long long& arg, size_t& next, int& st) { return ref_head(b, p, mt, ai, arg, next, st); }

int main(int argc, char** argv) {
    // argv: op P A Wh wh Wd wb unopened [extra]
    if (argc < 9) return 2;
    std::string op = argv[1];
    unsigned long long P = strtoull(argv[2], 0, 10), A = strtoull(argv[3], 0, 10);
    long long Wh = strtoll(argv[4], 0, 10), Wd = strtoll(argv[6], 0, 10);   // relative to P (may be negative = irrelevant)
    unsigned wh = atoi(argv[5]), wb = atoi(argv[7]);
    bool unopened = atoi(argv[8]) != 0;
    unsigned long long extra = argc > 9 ? strtoull(argv[9], 0, 10) : 0;
    if (P > 3 * 65535ULL) P = (P % 65535) + 2 * 65535ULL;     // keep the position relative to the window boundary
    if (A > 200000) A = 200000;
    Bytes in(P + A);
    for (size_t i = 0; i < in.size(); i++) in[i] = (unsigned char)(1 + i % 23);   // one-byte items 1..23 (position-dependent sentinels)
    if (Wh >= 0 && (size_t)(P + Wh) < in.size()) in[P + Wh] = wh;
    if (Wd >= 0 && (size_t)(P + Wd) < in.size()) in[P + Wd] = wb;
    if (argc > 10) { std::string hx = argv[10]; for (size_t i = 0; i + 1 < hx.size() && P + i / 2 < in.size(); i += 2) in[P + i / 2] = (unsigned char)strtoul(hx.substr(i, 2).c_str(), 0, 16); }
    std::istringstream ss(std::string(in.begin(), in.end()));
    std::ifstream nofile;   // never opened: failbit without eofbit after the first read
    std::istream& is = unopened ? static_cast<std::istream&>(nofile) : static_cast<std::istream&>(ss);
    if (unopened) { in.clear(); P = 0; }
    int got = RF_OK; unsigned long long gv = 0; std::string gs; bool gindef = false;
    long long next_sentinel = -1;
    try {
        CdnsDecoder dec(is);
        for (unsigned long long i = 0; i < P; i++) if (dec.read_unsigned() != (unsigned long long)(1 + i % 23)) { printf("REPLAY: MISMATCH while consuming filler item %llu\n", i); return 1; }
        try {
            if (op == "read_to_buffer" || op == "peek_type") { gv = (unsigned)dec.peek_type(); }
            else if (op == "read_cbor_type") { CborType t; uint8_t a; dec.read_cbor_type(t, a); gv = (unsigned)t | a; }
            else if (op == "read_int") { gv = dec.read_int((uint8_t)extra); }
            else if (op == "read_unsigned") gv = dec.read_unsigned();
            else if (op == "read_negative") gv = (unsigned long long)dec.read_negative();
            else if (op == "read_integer") gv = (unsigned long long)dec.read_integer();
            else if (op == "read_bool") gv = dec.read_bool();
            else if (op == "read_array_start") gv = dec.read_array_start(gindef);
            else if (op == "read_map_start") gv = dec.read_map_start(gindef);
            else if (op == "read_break") dec.read_break();
            else if (op == "read_bytestring") gs = dec.read_bytestring();
            else if (op == "read_textstring") gs = dec.read_textstring();
            else if (op == "skip_item") dec.skip_item();
            else return 2;
        } catch (CdnsDecoderEnd&) { got = RF_END; } catch (CdnsDecoderException&) { got = RF_FMT; }
        if (got == RF_OK && op != "peek_type" && op != "read_to_buffer") {
            try { next_sentinel = (long long)dec.read_unsigned(); } catch (std::exception&) { next_sentinel = -2; }
        }
    } catch (std::exception& e) { printf("REPLAY: MISMATCH unexpected exception %s\n", e.what()); return 1; }
    // reference
    int want = RF_OK; unsigned long long wv = 0; std::string ws; bool windef = false; size_t wend = P;
    unsigned mt = 0, ai = 0; unsigned long long arg = 0; size_t nx = P; int st = RF_OK;
    bool hd = head(in, P, mt, ai, arg, nx, st);
    auto need = [&](bool ok) { if (!hd) want = (P >= in.size()) ? RF_END : st; else if (!ok) want = RF_FMT; return want == RF_OK; };
    if (op == "peek_type" || op == "read_to_buffer") { if (P >= in.size()) want = RF_END; else wv = in[P] == 0xff ? 0xff : (in[P] & 0xe0); wend = P; }
    else if (op == "read_cbor_type") { if (P >= in.size()) want = RF_END; else { wv = in[P]; wend = P + 1; } }
    else if (op == "read_int") { unsigned e = extra & 0xff; size_t n = (e >= 24 && e <= 27) ? (1u << (e - 24)) : 0;
        if (P + n > in.size()) want = RF_END; else { wv = e <= 23 ? e : 0; for (size_t i = 0; i < n; i++) wv = (wv << 8) | in[P + i]; wend = P + n; } }
    else if (op == "read_unsigned") { if (P >= in.size()) want = RF_END; else if ((in[P] & 0xe0) != 0 || (in[P] & 0x1f) >= 28) want = RF_FMT; else if (need(true)) { wv = arg; wend = nx; } }
    else if (op == "read_negative") { if (P >= in.size()) want = RF_END; else if ((in[P] & 0xe0) != 0x20 || (in[P] & 0x1f) >= 28) want = RF_FMT; else if (need(true)) { wv = ~arg; wend = nx; } }
    else if (op == "read_integer") { if (P >= in.size()) want = RF_END; else if (((in[P] & 0xe0) != 0 && (in[P] & 0xe0) != 0x20) || (in[P] & 0x1f) >= 28) want = RF_FMT; else if (need(true)) { wv = (in[P] & 0xe0) ? ~arg : arg; wend = nx; } }
    else if (op == "read_bool") { if (P >= in.size()) want = RF_END; else { unsigned h = in[P];
        if (h == 0xf4 || h == 0xf5) { wv = h == 0xf5; wend = P + 1; } else if ((h & 0xe0) == 0 && (h & 0x1f) < 28) { if (need(true)) { wv = arg != 0; wend = nx; } } else want = RF_FMT; } }
    else if (op == "read_array_start" || op == "read_map_start") { unsigned m = op == "read_array_start" ? 0x80 : 0xa0;
        if (P >= in.size()) want = RF_END; else if ((in[P] & 0xe0) != m || ((in[P] & 0x1f) >= 28 && (in[P] & 0x1f) <= 30)) want = RF_FMT;
        else if ((in[P] & 0x1f) == 31) { windef = true; wv = 0; wend = P + 1; } else if (need(true)) { wv = arg; wend = nx; } }
    else if (op == "read_break") { if (P >= in.size()) want = RF_END; else if (in[P] != 0xff) want = RF_FMT; else wend = P + 1; }
    else if (op == "skip_item") { want = ref_skip(in, P, wend); }
    else if (op == "read_bytestring" || op == "read_textstring") { unsigned m = op == "read_bytestring" ? 0x40 : 0x60;
        if (P >= in.size()) want = RF_END; else if ((in[P] & 0xe0) != m || ((in[P] & 0x1f) >= 28 && (in[P] & 0x1f) <= 30)) want = RF_FMT;
        else { want = ref_skip(in, P, wend); if (want == RF_OK) { if ((in[P] & 0x1f) != 31) ws.assign(in.begin() + nx, in.begin() + wend);
               else for (size_t q = P + 1; in[q] != 0xff;) { unsigned m2, a2; unsigned long long g2; size_t n2; int s2; head(in, q, m2, a2, g2, n2, s2); ws.append(in.begin() + n2, in.begin() + n2 + g2); q = n2 + g2; } } } }
    long long want_sentinel = -1;
    if (want == RF_OK && op != "peek_type" && op != "read_to_buffer") { want_sentinel = wend < in.size() ? ((in[wend] & 0xe0) == 0 && (in[wend] & 0x1f) < 24 ? (long long)in[wend] : -3) : -2; }
    bool ok = got == want;
    if (ok && want == RF_OK) {
        if (op.find("string") != std::string::npos) ok = gs == ws; else if (op != "skip_item" && op != "read_break") ok = gv == wv && gindef == windef;
        if (ok && want_sentinel != -3) ok = next_sentinel == want_sentinel;
    }
    static const char* N[] = {"ok", "end-of-input", "format-error"};
    printf("REPLAY: %s op=%s consumed_before=%llu input_len=%zu head=%02x got=%s value=%llu next_item=%lld want=%s value=%llu next_item=%lld\n",
           ok ? "OK" : "MISMATCH", op.c_str(), P, in.size(), P < in.size() ? in[P] : 0, N[got], gv, next_sentinel, N[want], wv, want_sentinel);
    return ok ? 0 : 1;
}
