// Native replay of encoder counterexamples against the real CdnsEncoder (working tree of /repo).
// Oracle: an independent RFC 8949 head encoder written here, not shared with the library.
#include <cstdio>
#include <cstdlib>
#include <cstring>
#include <string>
#include <vector>
#include <unistd.h>
#include <fcntl.h>
#include <sys/stat.h>
#define private public
#include "cdns_encoder.h"
#undef private

static void ref_head(std::vector<unsigned char>& o, unsigned major, unsigned long long v) {
    if (v < 24) { o.push_back(major | v); return; }
    int n = v <= 0xff ? 1 : v <= 0xffff ? 2 : v <= 0xffffffffULL ? 4 : 8;
    o.push_back(major | (n == 1 ? 24 : n == 2 ? 25 : n == 4 ? 26 : 27));
    for (int i = n - 1; i >= 0; i--) o.push_back((v >> (8 * i)) & 0xff);
}
static void ref_int(std::vector<unsigned char>& o, long long v) {
    if (v < 0) ref_head(o, 0x20, (unsigned long long)(-(v + 1)));
    else ref_head(o, 0x00, (unsigned long long)v);
}
static std::string hex(const std::vector<unsigned char>& v, size_t from, size_t max = 24) {
    std::string s; char b[4];
    for (size_t i = from; i < v.size() && i < from + max; i++) { snprintf(b, 4, "%02x", v[i]); s += b; }
    if (v.size() > from + max) s += "..";
    return s;
}

int main(int argc, char** argv) {
    if (argc < 3) return 2;
    std::string op = argv[1];
    unsigned long fill = strtoul(argv[2], 0, 10);
    if (fill > 2048) return 2;
    char tmpl[] = "/tmp/cdns-replay-XXXXXX";
    int fd = mkstemp(tmpl);
    if (fd < 0) return 2;
    unlink(tmpl);
    int fd2 = dup(fd);
    std::vector<unsigned char> expect;
    size_t ret = 0, expect_ret = 0;
    std::string payload;
    {
        CDNS::CdnsEncoder enc(fd, CDNS::CborOutputCompression::NO_COMPRESSION);
        for (unsigned long i = 0; i < fill; i++) { enc.write_break(); expect.push_back(0xff); }
        size_t before = expect.size();
        if (op == "write_int") {
            unsigned long long v = strtoull(argv[3], 0, 10); unsigned major = strtoul(argv[4], 0, 10) & 0xe0;
            // write_int is private and refuses when the head does not fit: the public contract is that of its callers;
            // replayed through the caller that uses this major type with an 8-byte-capable argument
            if (enc.m_avail < 9) enc.flush_buffer();
            ret = enc.write_int(v, static_cast<CDNS::CborType>(major)); enc.update_buffer(ret);
            ref_head(expect, major, v);
        } else if (op == "write_array_start") { unsigned long long v = strtoull(argv[3], 0, 10); ret = enc.write_array_start(v); ref_head(expect, 0x80, v); }
        else if (op == "write_map_start") { unsigned long long v = strtoull(argv[3], 0, 10); ret = enc.write_map_start(v); ref_head(expect, 0xa0, v); }
        else if (op == "write_indef_array_start") { ret = enc.write_indef_array_start(); expect.push_back(0x9f); }
        else if (op == "write_indef_map_start") { ret = enc.write_indef_map_start(); expect.push_back(0xbf); }
        else if (op == "write_break") { ret = enc.write_break(); expect.push_back(0xff); }
        else if (op == "flush_buffer") { enc.flush_buffer(); }
        else if (op == "write_bool") { long long v = strtoll(argv[3], 0, 10); ret = enc.write(v != 0); expect.push_back(v ? 0xf5 : 0xf4); }
        else if (op == "write_uint8_t") { unsigned long long v = strtoull(argv[3], 0, 10); ret = enc.write((uint8_t)v); ref_head(expect, 0, (uint8_t)v); }
        else if (op == "write_uint16_t") { unsigned long long v = strtoull(argv[3], 0, 10); ret = enc.write((uint16_t)v); ref_head(expect, 0, (uint16_t)v); }
        else if (op == "write_uint32_t") { unsigned long long v = strtoull(argv[3], 0, 10); ret = enc.write((uint32_t)v); ref_head(expect, 0, (uint32_t)v); }
        else if (op == "write_uint64_t") { unsigned long long v = strtoull(argv[3], 0, 10); ret = enc.write((uint64_t)v); ref_head(expect, 0, v); }
        else if (op == "write_int8_t") { long long v = strtoll(argv[3], 0, 10); ret = enc.write((int8_t)v); ref_int(expect, (int8_t)v); }
        else if (op == "write_int16_t") { long long v = strtoll(argv[3], 0, 10); ret = enc.write((int16_t)v); ref_int(expect, (int16_t)v); }
        else if (op == "write_int32_t") { long long v = strtoll(argv[3], 0, 10); ret = enc.write((int32_t)v); ref_int(expect, (int32_t)v); }
        else if (op == "write_int64_t") { long long v = strtoll(argv[3], 0, 10); ret = enc.write((int64_t)v); ref_int(expect, v); }
        else if (op == "write_string" || op == "write_bytestring" || op == "write_textstring") {
            unsigned long long n = strtoull(argv[3], 0, 10);
            if (n > (64u << 20)) n = (64u << 20) + (n % 4099);   // cap the replayed length (the proof is for any length)
            bool isnull = argc > 4 && atoi(argv[4]);
            payload.resize(n);
            for (size_t i = 0; i < n; i++) payload[i] = (char)((i * 131 + 7) ^ (i >> 8));
            const unsigned char* p = isnull ? nullptr : reinterpret_cast<const unsigned char*>(payload.data());
            if (op == "write_string") { enc.write_string(p, n); ret = n; }
            else if (op == "write_bytestring") { ret = enc.write_bytestring(p, n); if (!isnull) ref_head(expect, 0x40, n); }
            else { ret = enc.write_textstring(p, n); if (!isnull) ref_head(expect, 0x60, n); }
            if (!isnull || op == "write_string") for (size_t i = 0; i < n; i++) expect.push_back((unsigned char)payload[i]);
        } else return 2;
        expect_ret = expect.size() - before;
    }   // destructor flushes
    std::vector<unsigned char> got;
    lseek(fd2, 0, SEEK_SET);
    unsigned char buf[65536]; ssize_t k;
    while ((k = read(fd2, buf, sizeof buf)) > 0) got.insert(got.end(), buf, buf + k);
    bool ok = got == expect && (op == "flush_buffer" || ret == expect_ret);
    size_t d = 0; while (d < got.size() && d < expect.size() && got[d] == expect[d]) d++;
    printf("REPLAY: %s op=%s fill=%lu returned=%zu expected_return=%zu output_len=%zu expected_len=%zu first_diff=%zu got=%s want=%s\n",
           ok ? "OK" : "MISMATCH", op.c_str(), fill, ret, expect_ret, got.size(), expect.size(), d,
           hex(got, d < fill ? d : fill).c_str(), hex(expect, d < fill ? d : fill).c_str());
    return ok ? 0 : 1;
}
