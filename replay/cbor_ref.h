// Independent RFC 8949 well-formedness reference used by the native replays.
#pragma once
#include <vector>
#include <cstddef>
typedef std::vector<unsigned char> Bytes;
enum { RF_OK = 0, RF_END = 1, RF_FMT = 2 };
static bool ref_head(const Bytes& b, size_t p, unsigned& mt, unsigned& ai, unsigned long long& arg, size_t& next, int& st) {
    if (p >= b.size()) { st = RF_END; return false; }
    mt = b[p] & 0xe0; ai = b[p] & 0x1f; arg = ai; next = p + 1;
    if (ai >= 24 && ai <= 27) {
        size_t n = (size_t)1 << (ai - 24);
        if (p + 1 + n > b.size()) { st = RF_END; return false; }
        arg = 0; for (size_t i = 0; i < n; i++) arg = (arg << 8) | b[p + 1 + i];
        next = p + 1 + n;
    }
    st = RF_OK; return true;
}
static int ref_skip(const Bytes& b, size_t p, size_t& end, int depth = 0) {
    unsigned mt, ai; unsigned long long arg; size_t nx; int st;
    if (depth > 200) return RF_FMT;
    if (!ref_head(b, p, mt, ai, arg, nx, st)) return st;
    if (ai >= 28 && ai <= 30) return RF_FMT;
    switch (mt) {
    case 0x00: case 0x20: if (ai == 31) return RF_FMT; end = nx; return RF_OK;
    case 0xc0: if (ai == 31) return RF_FMT; return ref_skip(b, nx, end, depth + 1);
    case 0xe0: if (ai == 31) return RF_FMT; end = nx; return RF_OK;
    case 0x40: case 0x60:
        if (ai != 31) { if (arg > b.size() - nx) return RF_END; end = nx + arg; return RF_OK; }
        for (size_t q = nx;;) {
            if (q >= b.size()) return RF_END;
            if (b[q] == 0xff) { end = q + 1; return RF_OK; }
            unsigned m2, a2; unsigned long long g2; size_t n2;
            if (!ref_head(b, q, m2, a2, g2, n2, st)) return st;
            if (m2 != mt || a2 >= 28) return RF_FMT;
            if (g2 > b.size() - n2) return RF_END;
            q = n2 + g2;
        }
    default: {
        unsigned long long per = mt == 0xa0 ? 2 : 1;
        size_t q = nx;
        if (ai != 31) { for (unsigned long long i = 0; i < arg * per; i++) { int s = ref_skip(b, q, q, depth + 1); if (s) return s; } end = q; return RF_OK; }
        for (unsigned long long i = 0;; i++) {
            if (q >= b.size()) return RF_END;
            if (b[q] == 0xff) { if (per == 2 && (i & 1)) return RF_FMT; end = q + 1; return RF_OK; }
            int s = ref_skip(b, q, q, depth + 1); if (s) return s;
        }
    } }
}
