// Native replay of Timestamp counterexamples; oracle: exact 128-bit integer arithmetic written here.
#include <cstdio>
#include <cstdlib>
#include <string>
#include <stdexcept>
#include "timestamp.h"
typedef __int128 i128;
int main(int argc, char** argv) {
    if (argc < 6) return 2;
    std::string op = argv[1];
    unsigned long long s = strtoull(argv[2], 0, 10), t = strtoull(argv[3], 0, 10);
    unsigned long long r = strtoull(argv[5], 0, 10);
    if (op == "add_time_offset") {
        long long off = strtoll(argv[4], 0, 10);
        CDNS::Timestamp ts(s, t);
        i128 T = (i128)s * r + t + off;
        bool want_refuse = r == 0 || T < 0;
        bool refused = false;
        try { ts.add_time_offset(off, r); } catch (std::exception&) { refused = true; }
        bool ok = refused == want_refuse;
        if (ok && refused) ok = ts.m_secs == s && ts.m_ticks == t;
        if (ok && !refused) ok = (i128)ts.m_secs == T / (i128)r && (i128)ts.m_ticks == T % (i128)r;
        printf("REPLAY: %s add_time_offset secs=%llu ticks=%llu offset=%lld rate=%llu refused=%d expected_refusal=%d result=(%llu,%llu)\n",
               ok ? "OK" : "MISMATCH", s, t, off, r, refused, want_refuse, (unsigned long long)ts.m_secs, (unsigned long long)ts.m_ticks);
        return ok ? 0 : 1;
    }
    if (op == "get_time_offset") {
        unsigned long long s2 = strtoull(argv[4], 0, 10), t2 = argc > 6 ? strtoull(argv[6], 0, 10) : 0;
        CDNS::Timestamp a(s, t), b(s2, t2);
        i128 want = ((i128)s * r + t) - ((i128)s2 * r + t2);
        bool refused = false; long long got = 0;
        try { got = a.get_time_offset(b, r); } catch (std::exception&) { refused = true; }
        bool ok = refused == (r == 0) && (refused || (i128)got == want);
        printf("REPLAY: %s get_time_offset a=(%llu,%llu) b=(%llu,%llu) rate=%llu refused=%d got=%lld\n", ok ? "OK" : "MISMATCH", s, t, s2, t2, r, refused, got);
        return ok ? 0 : 1;
    }
    if (op == "lt" || op == "le") {
        unsigned long long s2 = strtoull(argv[4], 0, 10), t2 = argc > 6 ? strtoull(argv[6], 0, 10) : 0;
        CDNS::Timestamp a(s, t), b(s2, t2);
        bool got = op == "lt" ? (a < b) : (a <= b);
        bool want = s < s2 || (s == s2 && (op == "lt" ? t < t2 : t <= t2));
        printf("REPLAY: %s %s a=(%llu,%llu) b=(%llu,%llu) got=%d want=%d\n", got == want ? "OK" : "MISMATCH", op.c_str(), s, t, s2, t2, got, want);
        return got == want ? 0 : 1;
    }
    return 2;
}
