// Native replay for C13, rotation to the other kind of output: an exporter writing to a named file is rotated to a file descriptor
// (argv[1] = "name2fd") or one writing to a descriptor is rotated to a file name ("fd2name"). If rotate_output returns normally, the
// output it closed must be one complete C-DNS item that receives no further bytes, and the records buffered afterwards must reach the new output.
#include <cstdio>
#include <cstring>
#include <string>
#include <vector>
#include <fstream>
#include <sstream>
#include <unistd.h>
#include <fcntl.h>
#include <sys/stat.h>
#include "cdns.h"
#include "cbor_ref.h"
static std::string slurp(const std::string& p) { std::ifstream f(p, std::ios::binary); std::stringstream s; s << f.rdbuf(); return s.str(); }
static CDNS::GenericQueryResponse qr(uint16_t id) { CDNS::GenericQueryResponse g; g.ts = CDNS::Timestamp(100 + id, 5); g.transaction_id = id; return g; }
static bool one_item(const std::string& f) { Bytes b(f.begin(), f.end()); size_t used = 0; return !b.empty() && ref_skip(b, 0, used) == RF_OK && used == b.size(); }
int main(int argc, char** argv) {
    bool name2fd = argc < 2 || !strcmp(argv[1], "name2fd");
    char tmpl[] = "/tmp/cdns-replayx-XXXXXX"; if (!mkdtemp(tmpl)) return 2;
    std::string a = std::string(tmpl) + "/a", b = std::string(tmpl) + "/b";
    CDNS::FilePreamble fp; CDNS::BlockParameters bp; fp.add_block_parameters(bp);
    bool threw = false;
    if (name2fd) {
        int fd = ::open(b.c_str(), O_WRONLY | O_CREAT | O_TRUNC, 0600);
        CDNS::CdnsExporter exp(fp, a, CDNS::CborOutputCompression::NO_COMPRESSION);
        auto q1 = qr(1); exp.buffer_qr(q1); exp.write_block();
        try { exp.rotate_output(fd, false); } catch (std::exception&) { threw = true; }
        if (!threw) { auto q2 = qr(2); exp.buffer_qr(q2); exp.write_block(); }
    } else {
        int fd = ::open(a.c_str(), O_WRONLY | O_CREAT | O_TRUNC, 0600);
        CDNS::CdnsExporter exp(fp, fd, CDNS::CborOutputCompression::NO_COMPRESSION);
        auto q1 = qr(1); exp.buffer_qr(q1); exp.write_block();
        try { exp.rotate_output(b, false); } catch (std::exception&) { threw = true; }
        if (!threw) { auto q2 = qr(2); exp.buffer_qr(q2); exp.write_block(); }
    }
    std::string fa = slurp(a), fb = slurp(b);
    bool ok = threw || (one_item(fa) && one_item(fb));
    printf("REPLAY: %s exporter on a %s, one block written, rotate_output(%s) %s, then one more block and destruction: the first output has %zu bytes and %s one complete CBOR item; the output rotated to received %zu bytes\n",
           ok ? "OK" : "MISMATCH", name2fd ? "named file" : "file descriptor", name2fd ? "file descriptor" : "file name", threw ? "threw" : "returned normally",
           fa.size(), one_item(fa) ? "is" : "is NOT", fb.size());
    unlink(a.c_str()); unlink((a + ".part").c_str()); unlink(b.c_str()); unlink((b + ".part").c_str()); rmdir(tmpl);
    return ok ? 0 : 1;
}
