// Native replay for C03 "never overflows the stack through input-controlled nesting": skip_item on n nested one-element arrays.
// The decoder runs in a child process; a child killed by a signal is the misbehaviour.
#include <cstdio>
#include <cstdlib>
#include <sstream>
#include <string>
#include <unistd.h>
#include <sys/wait.h>
#include "cdns_decoder.h"
int main(int argc, char** argv) {
    size_t n = argc > 1 ? strtoul(argv[1], 0, 10) : 200000;
    pid_t pid = fork();
    if (pid == 0) {
        std::string s(n, '\x81'); s.push_back('\x00');
        std::istringstream is(s);
        CDNS::CdnsDecoder dec(is);
        try { dec.skip_item(); } catch (std::exception&) { }
        _exit(0);
    }
    int st = 0; waitpid(pid, &st, 0);
    bool ok = WIFEXITED(st);
    printf("REPLAY: %s CdnsDecoder::skip_item on %zu nested one-element arrays (%zu bytes of input): %s\n", ok ? "OK" : "MISMATCH", n, n + 1,
           ok ? "completed" : "process killed by a signal (stack exhausted by the recursion)");
    return ok ? 0 : 1;
}
