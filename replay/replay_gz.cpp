// Native replay for C14: one large write through the gzip writer (the scratch buffer is a VLA of size + size/3 + 128 bytes).
#include <cstdio>
#include <cstdlib>
#include <string>
#include <vector>
#include <unistd.h>
#include <fcntl.h>
#include <sys/wait.h>
#include "writer.h"
int main(int argc, char** argv) {
    unsigned long long n = argc > 1 ? strtoull(argv[1], 0, 10) : (32ull << 20);
    if (n > (64ull << 20)) n = 64ull << 20;
    if (n < (16ull << 20)) n = 16ull << 20;      // the finding is about chunks of tens of MiB
    pid_t pid = fork();
    if (pid == 0) {
        int fd = open("/dev/null", O_WRONLY);
        std::vector<char> data(n, 'x');
        { CDNS::GzipCborOutputWriter w(fd); w.write(data.data(), data.size()); }
        _exit(0);
    }
    int st = 0; waitpid(pid, &st, 0);
    bool ok = WIFEXITED(st) && WEXITSTATUS(st) == 0;
    printf("REPLAY: %s GzipCborOutputWriter::write of one %llu-byte chunk: %s\n", ok ? "OK" : "MISMATCH", n,
           ok ? "completed" : (WIFSIGNALED(st) ? "process killed by a signal (stack overflow)" : "failed"));
    return ok ? 0 : 1;
}
