// Native replay for C16: the OS accepts the first bytes of an output and rejects the rest (file size limit, EFBIG);
// the rejected bytes are written while rotate_output closes the compressed stream: rotate_output must throw.
#include <cstdio>
#include <string>
#include <vector>
#include <csignal>
#include <fcntl.h>
#include <unistd.h>
#include <sys/resource.h>
#include <boost/any.hpp>
#include "writer.h"
int main() {
    signal(SIGXFSZ, SIG_IGN);
    char tmpl[] = "/tmp/cdns-replay-XXXXXX"; int fd = mkstemp(tmpl); if (fd < 0) return 2; unlink(tmpl);
    int ok_fd = open("/dev/null", O_WRONLY);
    struct rlimit rl, old; getrlimit(RLIMIT_FSIZE, &old); rl = old; rl.rlim_cur = 16; setrlimit(RLIMIT_FSIZE, &rl);   // the 10-byte gzip header fits, nothing else does
    bool threw_in_write = false, threw_in_rotate = false;
    {
        CDNS::GzipCborOutputWriter w(fd);
        std::vector<char> data(4096, 'x');
        try { w.write(data.data(), data.size()); } catch (std::exception&) { threw_in_write = true; }
        try { w.rotate_output(boost::any(ok_fd)); } catch (std::exception&) { threw_in_rotate = true; }
    }
    setrlimit(RLIMIT_FSIZE, &old);
    bool ok = threw_in_write || threw_in_rotate;
    printf("REPLAY: %s gzip output with a 16-byte file size limit: write %s, rotate_output %s\n", ok ? "OK" : "MISMATCH",
           threw_in_write ? "threw" : "returned normally", threw_in_rotate ? "threw" : "returned normally although the compressed data was rejected by the OS");
    return ok ? 0 : 1;
}
