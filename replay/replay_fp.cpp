// Native replay for C09 (r.FilePreamble): an absent optional member of the preamble must read back absent.
#include <cstdio>
#include <sstream>
#include <unistd.h>
#include "cdns.h"
using namespace CDNS;
int main() {
    FilePreamble fp;
    fp.m_private_version = boost::none;
    char tmpl[] = "/tmp/cdns-replay-XXXXXX"; int fd = mkstemp(tmpl); if (fd < 0) return 2; unlink(tmpl); int fd2 = dup(fd);
    { CdnsEncoder enc(fd, CborOutputCompression::NO_COMPRESSION); fp.write(enc); }
    std::string bytes; lseek(fd2, 0, SEEK_SET); char buf[65536]; ssize_t k; while ((k = read(fd2, buf, sizeof buf)) > 0) bytes.append(buf, k);
    std::istringstream is(bytes);
    CdnsDecoder dec(is);
    FilePreamble back;
    back.read(dec);
    bool ok = !back.m_private_version;
    printf("REPLAY: %s preamble written without private-version (%zu bytes) reads back %s\n", ok ? "OK" : "MISMATCH", bytes.size(),
           back.m_private_version ? "PRESENT" : "absent");
    return ok ? 0 : 1;
}
