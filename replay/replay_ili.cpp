// Native replay for C03 "never asks for an allocation sized by an unchecked length field": IndexListItem::read on a 5-byte input
// whose array head announces 2^28 elements. The largest single allocation request is observed through a replaced operator new.
#include <cstdio>
#include <cstdlib>
#include <new>
#include <sstream>
#include <string>
#include "cdns_decoder.h"
#include "block.h"
static std::size_t g_max_req = 0;
void* operator new(std::size_t n) { if (n > g_max_req) g_max_req = n; void* p = std::malloc(n ? n : 1); if (!p) throw std::bad_alloc(); return p; }
void operator delete(void* p) noexcept { std::free(p); }
void operator delete(void* p, std::size_t) noexcept { std::free(p); }
int main() {
    const unsigned char in[] = {0x9a, 0x10, 0x00, 0x00, 0x00};      // array(268435456), then end of input
    std::istringstream is(std::string(reinterpret_cast<const char*>(in), sizeof(in)));
    const char* outcome = "returned normally";
    {
        CDNS::CdnsDecoder dec(is);
        CDNS::IndexListItem item;
        g_max_req = 0;
        try { item.read(dec); } catch (std::exception& e) { outcome = "raised a std::exception"; }
    }
    bool ok = g_max_req <= (1u << 20);
    printf("REPLAY: %s IndexListItem::read on a %zu-byte input (array head announcing 2^28 elements): %s; largest single allocation request %zu bytes\n",
           ok ? "OK" : "MISMATCH", sizeof(in), outcome, g_max_req);
    return ok ? 0 : 1;
}
