// Native replay for C16, recovery clause: a descriptor output that rejects every write (a pipe whose read end is closed). The block write
// reports the failure; the records must still be buffered and a subsequent rotate_output to a healthy descriptor must succeed, after which
// write_block() must produce a complete file containing them.
#include <cstdio>
#include <string>
#include <fstream>
#include <csignal>
#include <unistd.h>
#include <fcntl.h>
#include "cdns.h"
static CDNS::GenericQueryResponse qr(uint16_t id) { CDNS::GenericQueryResponse g; g.ts = CDNS::Timestamp(100 + id, 5); g.transaction_id = id; return g; }
int main() {
    signal(SIGPIPE, SIG_IGN);
    char tmpl[] = "/tmp/cdns-replayr-XXXXXX"; if (!mkdtemp(tmpl)) return 2;
    std::string good = std::string(tmpl) + "/good";
    int pfd[2]; if (pipe(pfd)) return 2; close(pfd[0]);
    CDNS::FilePreamble fp; CDNS::BlockParameters bp; bp.storage_parameters.max_block_items = 100000; fp.add_block_parameters(bp);
    const int N = 400;
    bool block_write_threw = false, rotate_threw = false, second_rotate_threw = false; size_t buffered_after_failure = 0; unsigned long long got = 0;
    {
        CDNS::CdnsExporter exp(fp, pfd[1], CDNS::CborOutputCompression::NO_COMPRESSION);
        for (int i = 0; i < N; i++) { auto q = qr(i); exp.buffer_qr(q); }
        try { exp.write_block(); } catch (std::exception&) { block_write_threw = true; }
        buffered_after_failure = exp.get_block_item_count();
        int fd = ::open(good.c_str(), O_WRONLY | O_CREAT | O_TRUNC, 0600);
        try { exp.rotate_output(fd, false); } catch (std::exception&) { rotate_threw = true; }
        if (rotate_threw) { try { exp.rotate_output(fd, false); } catch (std::exception&) { second_rotate_threw = true; } }
        if (!rotate_threw || !second_rotate_threw) { try { exp.write_block(); } catch (std::exception&) {} }
    }
    try {
        std::ifstream in(good, std::ios::binary); CDNS::CdnsReader rd(in); bool eof = false;
        for (;;) { CDNS::CdnsBlockRead b = rd.read_block(eof); if (eof) break; got += b.get_item_count(); }
    } catch (std::exception&) {}
    bool ok = block_write_threw && buffered_after_failure == (size_t)N && !rotate_threw && got == (unsigned long long)N;
    printf("REPLAY: %s descriptor output that rejects every write (EPIPE), %d records: write_block %s, %zu records still buffered; rotate_output to a healthy descriptor %s%s; the healthy output then holds %llu of %d records\n",
           ok ? "OK" : "MISMATCH", N, block_write_threw ? "threw" : "returned normally", buffered_after_failure, rotate_threw ? "threw" : "returned normally",
           rotate_threw ? (second_rotate_threw ? " (and threw again when repeated)" : " (succeeded when repeated)") : "", got, N);
    unlink(good.c_str()); rmdir(tmpl);
    return ok ? 0 : 1;
}
