// Native replay for C16, named outputs: the OS accepts the first bytes of '<name>.part' and rejects the rest (file size limit, EFBIG).
// Neither write() nor the rotate_output() that closes the output may return normally for an output that lost bytes.
#include <cstdio>
#include <string>
#include <vector>
#include <csignal>
#include <unistd.h>
#include <sys/stat.h>
#include <sys/resource.h>
#include <boost/any.hpp>
#include "writer.h"
int main() {
    signal(SIGXFSZ, SIG_IGN);
    char tmpl[] = "/tmp/cdns-replayf-XXXXXX"; if (!mkdtemp(tmpl)) return 2;
    std::string a = std::string(tmpl) + "/a", b = std::string(tmpl) + "/b";
    struct rlimit rl, old; getrlimit(RLIMIT_FSIZE, &old); rl = old; rl.rlim_cur = 4096; setrlimit(RLIMIT_FSIZE, &rl);
    bool threw_in_write = false, threw_in_rotate = false;
    const size_t N = 1 << 20;
    {
        CDNS::CborOutputWriter w(a);
        std::vector<char> data(N, 'x');
        try { w.write(data.data(), data.size()); } catch (std::exception&) { threw_in_write = true; }
        setrlimit(RLIMIT_FSIZE, &old);        // the next output is healthy
        try { w.rotate_output(boost::any(b)); } catch (std::exception&) { threw_in_rotate = true; }
    }
    struct stat st; long sz = stat(a.c_str(), &st) == 0 ? (long)st.st_size : -1;
    unlink(a.c_str()); unlink((a + ".part").c_str()); unlink(b.c_str()); unlink((b + ".part").c_str()); rmdir(tmpl);
    bool ok = threw_in_write || threw_in_rotate;
    printf("REPLAY: %s named output with a 4096-byte file size limit, 1 MiB written: write %s, rotate_output %s; file under its final name has %ld of %zu bytes\n",
           ok ? "OK" : "MISMATCH", threw_in_write ? "threw" : "returned normally", threw_in_rotate ? "threw" : "returned normally", sz, N);
    return ok ? 0 : 1;
}
