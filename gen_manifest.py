#!/usr/bin/env python3
"""Regenerates MANIFEST.json from the table below (keeps it valid at all times)."""
import json, os
HERE = os.path.dirname(os.path.abspath(__file__))

CLAIMS = {}   # id -> dict(text, note, technique, design_ref)
NA = {}       # id -> reason

CLAIMS['C06'] = dict(
    text="Proof, for all argument values (full 2^64 / per-width domains), all buffer fill levels 0..2048, all string lengths < 2^48 "
         "(loop closed by invariant + decreases, no unwinding) and one arbitrary watched output index, that each of the 18 public "
         "CdnsEncoder write operations and the private write_int/write_string/flush_buffer append exactly the RFC 8949 preferred "
         "encoding, return its length, leave earlier output unchanged and re-establish the encoder invariant; the per-operation "
         "contract over the invariant is the inductive step for every call sequence. Function bodies are lowered from clang's AST "
         "of the working tree on every run.",
    note="Trusted: sink model A1, memcpy model A3, the cdns2c lowering, CBMC/dfcc and its SAT back end, LP64. The output sink does not "
         "fail here (C16). The std::string convenience overloads and the rotate_output template are covered in the item/output layers.",
    technique="CBMC dfcc function contracts + loop contracts on bodies lowered from the clang AST; RFC 8949 head spec as macros; watched-byte content",
    design_ref="6/C06")

CLAIMS['C17'] = dict(
    text="Proof for all 2^64 x 2^64 (secs, ticks) pairs, all int64 offsets including INT64_MIN and all tick rates 0..10^9 that "
         "get_time_offset returns the exact signed tick difference, add_time_offset refuses exactly when the rate is 0 or the sum is "
         "before the epoch (object unchanged) and otherwise stores (T div r, T mod r) of the exact sum with no signed overflow, and "
         "operator< / operator<= are the lexicographic order; four integer lemmas (z3) bridge machine to mathematical arithmetic, "
         "give normalisation, inversion (add after offset is the identity) and order-by-instant. Block-level earliest-time invariant: see units blk.*.",
    note="Assumes instants and results < 2^63 and tick rate <= 10^9 (the property's representable range); LP64 modular unsigned arithmetic; "
         "lemmas are over mathematical integers (z3 4.8).",
    technique="CBMC dfcc contracts on lowered Timestamp methods (cvc5/cadical) + SMT integer lemmas (z3)",
    design_ref="6/C17")

ALL = ['C%02d' % i for i in range(1, 21)]


def main():
    checks = []
    for pid in ALL:
        if pid in CLAIMS:
            c = CLAIMS[pid]
            checks.append({
                'property_id': pid,
                'quick_cmd': './check %s --tier quick' % pid,
                'thorough_cmd': './check %s --tier thorough' % pid,
                'evidence_file': '/verif/evidence/%s.json' % pid,
                'replay_cmd_template': './check %s --replay {path}' % pid,
                'engine': 'cdns2c+cbmc-dfcc',
                'level_claimed': {'category': c.get('category', 'proof'), 'text': c['text'], 'design_ref': 'DESIGN.md section ' + c['design_ref']},
                'level_note': c['note'],
                'technique': c['technique'],
            })
    na = [{'property_id': p, 'reason': NA.get(p, 'not yet brought under contract in this round (work in progress; see DESIGN.md section 11)')}
          for p in ALL if p not in CLAIMS]
    m = {
        'version': 1,
        'setup_cmd': 'true',
        'hooks': {
            'guard': 'CZ_NIC_C_DNS_VERIF',
            'enable': 'none needed: no hook commits in /repo; every check lowers /repo/src from clang\'s AST of the working tree',
            'baseline_off_cmd': 'rm -rf /tmp/cdns_baseline_build && cmake -G Ninja -S /repo -B /tmp/cdns_baseline_build -DBUILD_TESTS=ON -DBUILD_DOC=OFF '
                                '&& cmake --build /tmp/cdns_baseline_build && ctest --test-dir /tmp/cdns_baseline_build -j8 --timeout 900',
            'source_commits': [],
            'add_only': True,
        },
        'engines': [{'name': 'cdns2c+cbmc-dfcc', 'path': '/verif/check', 'serves_properties': sorted(CLAIMS),
                     'kind_free_text': 'contract-based deductive verification: clang-AST lowering to C, CBMC 6.11 dfcc function and loop contracts, one unit per function'}],
        'checks': checks,
        'not_applicable': na,
        'notes': 'exit 2 from a check means undecided (extraction break, timeout, tool error), never a violation. known findings: /verif/known_findings.txt',
    }
    with open(os.path.join(HERE, 'MANIFEST.json'), 'w') as f:
        json.dump(m, f, indent=1)


if __name__ == '__main__':
    main()
