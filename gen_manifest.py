#!/usr/bin/env python3
"""Regenerates MANIFEST.json from the table below (keeps it valid at all times)."""
import json, os
HERE = os.path.dirname(os.path.abspath(__file__))

CLAIMS = {}   # id -> dict(text, note, technique, design_ref)
NA = {}       # id -> reason

CLAIMS['C06'] = dict(
    text="Proof, for all argument values (full 2^64 / per-width domains), all buffer fill levels 0..2048, all string lengths < 2^48 "
         "(loop closed by invariant + decreases, no unwinding) and one arbitrary watched output index, that each of the 18 public "
         "CdnsEncoder write operations and the private write_int/write_string/flush_buffer append exactly the RFC 8949 preferred "
         "encoding, return its length, leave earlier output unchanged and re-establish the encoder invariant; the per-operation "
         "contract over the invariant is the inductive step for every call sequence. Function bodies are lowered from clang's AST "
         "of the working tree on every run.",
    note="Trusted: sink model A1, memcpy model A3, the cdns2c lowering, CBMC/dfcc and its SAT back end, LP64. The output sink does not "
         "fail here (C16). The std::string convenience overloads and the rotate_output template are covered in the item/output layers.",
    technique="CBMC dfcc function contracts + loop contracts on bodies lowered from the clang AST; RFC 8949 head spec as macros; watched-byte content",
    design_ref="6/C06")

CLAIMS['C17'] = dict(
    text="Proof for all 2^64 x 2^64 (secs, ticks) pairs, all int64 offsets including INT64_MIN and all tick rates 0..10^9 that "
         "get_time_offset returns the exact signed tick difference, add_time_offset refuses exactly when the rate is 0 or the sum is "
         "before the epoch (object unchanged) and otherwise stores (T div r, T mod r) of the exact sum with no signed overflow, and "
         "operator< / operator<= are the lexicographic order; four integer lemmas (z3) bridge machine to mathematical arithmetic, "
         "give normalisation, inversion (add after offset is the identity) and order-by-instant. Block-level earliest-time invariant: see units blk.*.",
    note="Assumes instants and results < 2^63 and tick rate <= 10^9 (the property's representable range); LP64 modular unsigned arithmetic; "
         "lemmas are over mathematical integers (z3 4.8).",
    technique="CBMC dfcc contracts on lowered Timestamp methods (cvc5/cadical) + SMT integer lemmas (z3)",
    design_ref="6/C17")


COMMON_NOTE = ("Trusted: the cdns2c lowering (clang 14 JSON AST -> C, closed rule table), CBMC 6.11 dfcc and its SAT/SMT back ends, LP64, and the "
               "library models listed in the evidence file's trusted_base (optional/string/vector abstractions, istream, sink, BlockTable as a sequence). ")
CLAIMS['C05'] = dict(
    text="Proof that read_to_buffer (the only refill point) raises end-of-input exactly when no input byte is left - for every window position, every stream state and every remaining length incl. 0 and exact multiples of the window - and otherwise leaves at least one unread byte in the window with the logical position unchanged; peek/read_cbor_type/read_int/all typed head readers and definite strings inherit 'too few bytes => end-of-input, nothing returned' through its contract. CdnsReader::read_file_header and read_block: every decoder error propagates (a truncated file is never reported as a clean end), a block is returned only after CdnsBlockRead::read returned normally.",
    note=COMMON_NOTE + "The 'only complete blocks' consequence composes rdr.read_block with the reader units (r.*, rdb.*) consuming whole maps.",
    technique='CBMC dfcc contracts on the lowered decoder against a ghost std::istream model with two watched input bytes', design_ref='6/C05, 12.2')
CLAIMS['C07'] = dict(
    text="Head level (dec.*): read_unsigned/negative/integer/bool/array_start/map_start/break/read_int and definite-length strings: every head width (also non-preferred), value per byte lane, position advanced by exactly the item's bytes, any placement relative to the 65535-byte window incl. a refill between any two bytes, format error exactly for the heads RFC 8949 forbids for that reader. Structure level (dec2.*, against executable forms of the head-level contracts over a one-byte window): read_bytestring/read_textstring (type check, one read_string with the head's length, indefinite iff code 31), chunked strings (chunks until a stop code at a chunk boundary, which is consumed) and skip_item (integers/simple: head only; tags: exactly one nested item; strings: one body; definite containers: exactly n / 2n nested items; indefinite containers end at a stop code at an item boundary; induction on the remaining input for the recursion).",
    note=COMMON_NOTE + 'Definite containers with >= 2^32 members and recursion depth (stack use) of skip_item are outside the contracts.',
    technique='CBMC dfcc function + loop contracts on lowered decoder bodies; RFC 8949 head grammar as macros; watched head/argument bytes', design_ref='6/C07, 12.2')
CLAIMS['C10'] = dict(
    text="Proof that every encoder operation returns exactly the bytes it appends (byte layer) and that every *::write, CdnsBlock::write, "
         "write_file_header, write_block, buffer_*, rotate_output return exactly the sum of what they caused to be appended (ghost byte counter), "
         "incl. the single closing byte added on destruction.",
    note=COMMON_NOTE + "Item layer uses the byte-layer contracts as token stubs (A13 ii). Compression is below this layer (counts are of uncompressed bytes).",
    technique="CBMC dfcc contracts; ghost byte counter in the encoder stubs; loop contracts for list members", design_ref="6/C10, 12.2")
CLAIMS['C02'] = dict(
    text="Proof per writer that it emits exactly one well-formed item whose declared map/array length equals the members actually emitted, with "
         "RFC 8618 keys and CBOR kinds (generated from a transcription of the RFC tables), for all member values and presence patterns incl. "
         "present-but-empty optional structures and empty lists; proof of the exporter invariant over all call histories: nothing emitted while "
         "no block was written, header + open block array otherwise, every rotation/destruction closes an output that is empty or one complete item.",
    note=COMMON_NOTE + "Index closure ('every stored index addresses an existing entry') is covered only by call counting in the add.* units (one table insertion per stored reference).",
    technique="CBMC dfcc contracts against a ghost CBOR grammar monitor / key tracker; contracts generated from RFC 8618 tables", design_ref="6/C02, 12.2")
CLAIMS['C09'] = dict(
    text="Writers of the preamble structures emit, for every RFC key, the member's value iff it is present (absent optional => no key; present-but-empty structure => empty map); readers set each member to the last value delivered under its RFC key and leave it in its reset state otherwise (all five preamble readers and their list members in the quick tier, list members as separate read_array instance units).",
    note=COMMON_NOTE + 'write->read equality is the composition of the two per-key statements over the same RFC table (A13).',
    technique='CBMC dfcc contracts with a watched map key on both sides; generated from RFC 8618 tables', design_ref='6/C09, 12.2')
CLAIMS['C08'] = dict(
    text='Proof per reader (17 structure readers, the block map, the tables map, the file header), for a map with an arbitrary number of entries, arbitrary (unknown, negative, repeated) keys, definite or indefinite form and any member order, that each member equals the last value delivered under its RFC key, each known key feeds exactly its own member/table, unknown keys consume exactly one item and change nothing, mandatory members missing => exception; skip_item and chunked strings at the structure level (dec2.*); head widths are abstracted away by the byte-layer contracts.',
    note=COMMON_NOTE + "Element-level content of nested structures is carried by the nested reader's own unit (modular).",
    technique='CBMC dfcc loop contracts on lowered readers against a ghost token stream with protocol automaton', design_ref='6/C08, 12.2')
CLAIMS['C01'] = dict(
    text='Chain of per-function proofs: add_* store exactly the hint-enabled supplied members (add.*) through the de-duplicating table wrappers (blk.add_*, btr.*), writers emit them under RFC keys with exact values and offsets (w.*), the byte layer encodes/decodes heads exactly (enc.*, dec.*, dec2.*), readers restore each member from its key and each table entry at its file position (r.*, rdb.read_blocktables, rabt.*), CdnsBlockRead::read resolves every stored offset exactly once against the final earliest time and the selected parameters (rdb.read), read_generic_qr/mm and fill_generic_*_list present every stored member and resolve every index through the bounds-checked accessors (rdb.*, blk.get_*), timestamps round-trip (ts.*).',
    note=COMMON_NOTE + 'Composition of the links is a meta-argument (A13); read_generic_aec and the CdnsBlockRead constructors are not under contract.',
    technique='composition of CBMC dfcc contracts across layers (RFC 8618 table as the independent oracle)', design_ref='6/C01, 12.2')
CLAIMS['C04'] = dict(
    text="Proof for all 2^18 x 2^17 x 4 x 4 hint masks and all presence patterns (one symbolic call): a member is stored iff its hint bit is set and "
         "the value is supplied; exactly one table insertion per stored reference (no unreachable entries); address events / malformed messages "
         "change nothing when their bit is clear; StorageHints::write emits the four masks.",
    note=COMMON_NOTE + "Hint bit assignment from the RFC transcription.", technique="CBMC dfcc contracts with ghost capture of the pushed record and per-table call counters", design_ref="6/C04, 12.2")
CLAIMS['C12'] = dict(
    text="Inductive invariant over all call histories: between calls no item array has reached max(1, max_block_items); buffer_* writes a block "
         "exactly when add_* reports full(), returns non-zero exactly then; add_* grow exactly one array by at most one; write_block clears and re-arms.",
    note=COMMON_NOTE + "Submission order/conservation is argued from 'grows by at most one, cleared only after a successful write'; sequence numbers are not modelled.",
    technique="CBMC dfcc contracts: data-structure invariant on CdnsExporter/CdnsBlock", design_ref="6/C12, 12.2")
CLAIMS['C13'] = dict(
    text='rotate_output (exporter, both instantiations): optional export, stop code iff a header was written, the encoder switch is reached only with an output that is empty or one complete item (asserted in the stub), the new output starts empty with the counter reset; without export the buffered records stay buffered. CdnsEncoder::rotate_output<T> / ~CdnsEncoder (enc.rotate_output.*, enc.dtor): every byte produced for the old output reaches the sink before the sink is rotated. Compressing writers rotate the inner writer only with a finished, fully forwarded stream.',
    note=COMMON_NOTE + 'File-level facts (rename order) are C15.',
    technique='CBMC dfcc contracts: exporter invariant + grammar monitor', design_ref='6/C13, 12.2')
CLAIMS['C11'] = dict(
    text='For each block-table key type: operator== is exactly member-wise equality and equal keys hash equally (bt.eqhash.*, loop-free, complete). BlockTable<T> itself on its real template instantiations (btr.*, 7 tables): operator[] bounds-checked; find reports the stored index iff an equal key is present; add returns that index without growth, otherwise appends exactly the value at index old size; existing entries never change; the index map entry refers to the stored copy; clear empties entries and index. CdnsBlock wrappers (blk.add_*) search once for the given value and add only when absent; CdnsBlock::clear empties every table and item array whatever the block holds (blk.clear).',
    note=COMMON_NOTE + 'std::unordered_map/std::deque themselves are library models (A7/A8): that an equal key is found when present rests on std::unordered_map plus the proved equality/hash agreement; reference stability of deque elements assumed.',
    technique='CBMC (loop-free agreement units) + dfcc contracts on the lowered real template instantiations of BlockTable<T> and on CdnsBlock', design_ref='6/C11, 12.2')
CLAIMS['C03'] = dict(
    text="CBMC's bounds/pointer/signed-overflow/division/pointer-overflow checks discharged in every read-side unit: decoder primitives incl. skip_item and chunked strings, 17 item readers, block/tables/header readers, Timestamp arithmetic on untrusted values, BlockTable::operator[] and all nine table accessors (an index from a file is returned iff it is below the table size), read_generic_qr/mm and fill_generic_*_list (tables reached only through the checked accessors; block-parameters index bounds-checked), decreases clauses on loops under contract, and the allocation precondition of string reserve().",
    note=COMMON_NOTE + "Partial: CLI tools, text renderers (dname/ip), read_generic_aec, IndexListItem::read's reserve and skip_item's recursion depth are not under contract.",
    technique='CBMC dfcc contracts + generated safety checks on lowered read-side bodies', design_ref='6/C03, 12.4')
CLAIMS['C14'] = dict(
    text="Protocol-conformance proof under the zlib/liblzma manuals (A10), for chunks of any size < 2^50: write() offers every input byte to the compressor exactly once (in slices of at most 512 KiB, which bounds the scratch buffer and keeps zlib's 32-bit counters exact), every byte the compressor produced is forwarded to the inner writer exactly once from the start of the scratch buffer, close()/destruction finish the stream (FINISH until STREAM_END, then release) only if one is open, rotate_output rotates the inner writer only with a finished, fully forwarded stream and opens one new stream (gzip and xz: write step, write, close, rotate_output, destructor).",
    note=COMMON_NOTE + 'Decompress(output) == input rests on zlib/liblzma themselves; progress/termination of the compressor assumed; the characters of <name> are not modelled (names are uninterpreted concatenations).',
    technique='CBMC dfcc function + loop contracts against ghost models of deflate / lzma_code and the inner writer', design_ref='6/C14, 12.2')
CLAIMS['C15'] = dict(
    text="Ordering automaton over ofstream/rename events with nondeterministic failures: Writer<std::string>::close, rotate_output (real close/open bodies) and destructor rename '.part' to the final name only after flush and close of the stream, exactly once per closed file, never when no file is open; CdnsEncoder::rotate_output/~CdnsEncoder hand every produced byte to the sink first (incl. the closing break: enc.write_break, exp.dtor, exp.rotate_output.*); compressor destructors/close finish and forward the trailer before the inner writer is touched.",
    note=COMMON_NOTE + "Crash points are collapsed to this happens-before statement under POSIX rename atomicity; path names are uninterpreted concatenations (the file is opened as <name><suffix> + the literal '.part' and renamed only to its own <name><suffix>); the C++ order of member destruction (inner writer after the compressor's destructor body) is not modelled.",
    technique='CBMC dfcc contract on the lowered template specialisation against a ghost event automaton', design_ref='6/C15, 12.2')
CLAIMS['C16'] = dict(
    text="Writer<int>::write returns normally iff the OS accepted every byte (short or failed ::write raises); CdnsEncoder::rotate_output propagates a rejected flush, does not rotate then and keeps the buffered bytes; on an output failure write_block() leaves the buffered records untouched and rotate_output to a healthy output re-establishes the exporter invariant (exp.* units with a failing sink). 'rotate_output never returns normally for an output that lost bytes' is checked on the compressing writers and on the named-file writer and is a KNOWN FINDING for both (close() swallows; the stream failbit is never looked at).",
    note=COMMON_NOTE + 'Known findings F9/F11/F13 (three for C16) are listed in known_findings.txt with native replays.',
    technique='CBMC dfcc contracts with nondeterministic OS/sink failures (fault = nondeterminism)', design_ref='6/C16, 12.2')
CLAIMS['C20'] = dict(category='other',
    text="First clause only ('keeps no shared mutable state'): exhaustive scan of clang's AST for every declaration with static storage duration in "
         "namespace CDNS (namespace scope, static members, static locals): all are const/constexpr; the frames of every function under contract in the "
         "other checks are limited to their arguments and ghost state. Schedules are not examined.",
    note="Supporting static fact, not a proof of the concurrency statement; libc/iostream/zlib/lzma assumed thread-compatible.",
    technique="clang AST declaration scan + dfcc assigns clauses", design_ref="6/C20")
CLAIMS['C19'] = dict(
    text="BlockTable<T> copy assignment on its real template instantiations (7 tables; before the fix: the implicitly defined operator= as it appears in clang's AST): "
         "the copy holds the same entries and every index-map entry of the copy refers to the copy's own storage and to an existing entry - never to the source's, "
         "which may be modified, cleared or destroyed afterwards (representation invariant on an arbitrary watched entry, re-established by rebuild_index with a loop "
         "contract). CdnsBlock::operator= / CdnsBlockRead::operator= (the only route of every copy and 'move' of a block): every table and item array, preamble, statistics "
         "and parameters are copied, the source is outside the frame, read positions of a CdnsBlockRead restart on the copy's own containers. Behaviour of the copy "
         "afterwards is that of any table satisfying the invariant (btr.* units of C11).",
    note=COMMON_NOTE + "std::deque/std::unordered_map are models (A7/A8); the copy *constructor* of BlockTable is not instantiated anywhere (blocks copy by assignment) "
         "and defaulted moves rest on std::deque keeping element addresses when moved. A genuine defect was found and fixed (known_findings.txt).",
    technique="CBMC dfcc contracts on the lowered real template instantiations of BlockTable<T> (function + loop contracts) and on CdnsBlock/CdnsBlockRead::operator=", design_ref="8, 12.6")
CLAIMS['C12']['text'] += " The counters the API reports are under contract too: CdnsBlock::get_item_count/get_qr_count/get_aec_count/get_mm_count/full/set_block_parameters and the exporter's get_block_*_count / get_blocks_written_count (proved against the block getters' contracts)."
CLAIMS['C13']['text'] += ' Writer<T>::rotate_output for a value of the other kind (file name <-> descriptor): a normal return must mean the current output was closed (out.file.rotate_output.c13, out.fd.rotate_output.c13: two known findings, the value is silently ignored). Named-file writer: write/open/constructor (out.file.*).'
CLAIMS['C13']['note'] += ' Claimed under the documented precondition of add_block_parameters (a parameter set added after the header of the current output was written is used only after a rotation). Known findings: rotation to the other kind of output (known_findings.txt, replay_c13x.cpp).'
CLAIMS['C14']['text'] += " Format and suffix: deflateInit2 is asked for the gzip wrapper (windowBits 16+9..15) with arguments in the manual's ranges, lzma_easy_encoder for a valid preset and .xz integrity check; the constructors of both compressing writers create exactly one inner writer for the given name/descriptor with the suffix '.gz' / '.xz' and open the stream; CdnsEncoder's constructor creates the writer class the requested compression names (enc.ctor.*); the named-file writer opens (<name> + <extension>) + '.part' (out.file.open/.ctor)."
CLAIMS['C15']['text'] += " Also: Writer<std::string>::write sends every byte to the stream open on the .part file; open/constructor create the .part file empty (open mode without app/in) under (<name>+<extension>)+'.part'; the compressing writers' rotate_output finish the compressed stream before the inner file is renamed. Known finding: a stream that has rejected bytes is still renamed (out.file.close.c15)."
CLAIMS['C16']['text'] += ' Recovery clause stated separately (enc.rotate_output.fd.recover): rotation to an output that can be opened must succeed whatever the old output does - known finding (the stale staging buffer is flushed to the old output first).'
CLAIMS['C05']['text'] += " CdnsReader's constructor reads the file header unconditionally and lets every decoder error propagate (rdr.ctor)."
CLAIMS['C11']['text'] += ' IndexListItem: vector equality / data() as content identity (bt.eqhash.IndexListItem).'
CLAIMS['C01']['note'] += " The three byte-window decoder units (dec.read_to_buffer, dec.read_int, dec.read_string) are part of this chain but run in C01's thorough tier only; every quick run of C05/C07/C03 decides them."
NA.update({
 'C18': "property of five main() bodies (getopt, iostream, several files): no function-level contract within reach states it (DESIGN section 8)",
})

ALL = ['C%02d' % i for i in range(1, 21)]


def main():
    checks = []
    for pid in ALL:
        if pid in CLAIMS:
            c = CLAIMS[pid]
            checks.append({
                'property_id': pid,
                'quick_cmd': './check %s --tier quick' % pid,
                'thorough_cmd': './check %s --tier thorough' % pid,
                'evidence_file': '/verif/evidence/%s.json' % pid,
                'replay_cmd_template': './check %s --replay {path}' % pid,
                'engine': 'cdns2c+cbmc-dfcc',
                'level_claimed': {'category': c.get('category', 'proof'), 'text': c['text'], 'design_ref': 'DESIGN.md section ' + c['design_ref']},
                'level_note': c['note'],
                'technique': c['technique'],
            })
    na = [{'property_id': p, 'reason': NA.get(p, 'not yet brought under contract in this round (work in progress; see DESIGN.md section 11)')}
          for p in ALL if p not in CLAIMS]
    m = {
        'version': 1,
        'setup_cmd': 'true',
        'hooks': {
            'guard': 'CZ_NIC_C_DNS_VERIF',
            'enable': 'none needed: no hook commits in /repo; every check lowers /repo/src from clang\'s AST of the working tree',
            'baseline_off_cmd': 'rm -rf /tmp/cdns_baseline_build && cmake -G Ninja -S /repo -B /tmp/cdns_baseline_build -DBUILD_TESTS=ON -DBUILD_DOC=OFF '
                                '&& cmake --build /tmp/cdns_baseline_build && ctest --test-dir /tmp/cdns_baseline_build -j8 --timeout 900',
            'source_commits': [],
            'add_only': True,
        },
        'engines': [{'name': 'cdns2c+cbmc-dfcc', 'path': '/verif/check', 'serves_properties': sorted(CLAIMS),
                     'kind_free_text': 'contract-based deductive verification: clang-AST lowering to C, CBMC 6.11 dfcc function and loop contracts, one unit per function'}],
        'checks': checks,
        'not_applicable': na,
        'notes': 'exit 2 from a check means undecided (extraction break, timeout, tool error), never a violation. known findings: /verif/known_findings.txt',
    }
    with open(os.path.join(HERE, 'MANIFEST.json'), 'w') as f:
        json.dump(m, f, indent=1)


if __name__ == '__main__':
    main()
