"""C++ type strings (clang qualType) -> C types used by the lowering."""
import re


class LowerError(Exception):
    """Extraction break: the lowering met something outside its closed rule table (exit 2)."""


class T:
    def __init__(self, kind, name=None, args=None, to=None, const=False, arr=None):
        self.kind = kind      # 'named' | 'ptr' | 'ref' | 'arr' | 'fn'
        self.name = name
        self.args = args or []
        self.to = to
        self.const = const
        self.arr = arr

    def __repr__(self):
        if self.kind == 'named':
            return self.name + ('<' + ','.join(map(repr, self.args)) + '>' if self.args else '')
        if self.kind == 'arr':
            return repr(self.to) + '[%s]' % self.arr
        return repr(self.to) + {'ptr': '*', 'ref': '&', 'fn': '()'}[self.kind]


_tok = re.compile(r'\s*(::|&&|[<>,*&()\[\]]|[A-Za-z_][A-Za-z_0-9]*|[0-9]+|\.\.\.)')
_BW = {'unsigned', 'signed', 'long', 'short', 'int', 'char', 'bool', 'void', 'float', 'double', '__int128'}


def tokenize(s):
    out = []
    i = 0
    while i < len(s):
        m = _tok.match(s, i)
        if not m:
            if s[i:].strip() == '':
                break
            raise LowerError("cannot tokenize type %r at %d" % (s, i))
        out.append(m.group(1))
        i = m.end()
    return out


class _P:
    def __init__(self, toks, src):
        self.t = toks
        self.i = 0
        self.src = src

    def peek(self):
        return self.t[self.i] if self.i < len(self.t) else None

    def next(self):
        x = self.peek()
        self.i += 1
        return x

    def parse(self):
        const = False
        while self.peek() in ('const', 'volatile', 'struct', 'class', 'enum', 'typename'):
            if self.next() == 'const':
                const = True
        base = self.named()
        base.const = const
        while True:
            p = self.peek()
            if p in ('const', 'volatile'):
                self.next()
                if p == 'const':
                    base.const = True
            elif p == '*':
                self.next()
                base = T('ptr', to=base)
            elif p in ('&', '&&'):
                self.next()
                base = T('ref', to=base)
            elif p == '[':
                self.next()
                n = self.next()
                if n == ']':
                    n = ''
                else:
                    if self.next() != ']':
                        raise LowerError("bad array type " + self.src)
                base = T('arr', to=base, arr=n)
            elif p == '(':
                # function type or pointer-to-function: swallow balanced parens, keep opaque
                depth = 0
                while self.peek() is not None:
                    x = self.next()
                    if x == '(':
                        depth += 1
                    elif x == ')':
                        depth -= 1
                        if depth == 0 and self.peek() != '(':
                            break
                base = T('fn', to=base)
            else:
                return base

    def named(self):
        p = self.peek()
        if p in _BW:
            words = []
            while self.peek() in _BW:
                words.append(self.next())
            return T('named', ' '.join(words))
        name = ''
        if p == '::':
            self.next()
        args = []
        while True:
            x = self.next()
            if x is None or not re.match(r'[A-Za-z_]', x):
                raise LowerError("bad type %r (at token %r)" % (self.src, x))
            name += x
            args = []
            if self.peek() == '<':
                self.next()
                while self.peek() != '>':
                    if re.match(r'[0-9]+$', self.peek() or ''):
                        args.append(T('named', self.next()))
                    else:
                        args.append(self.parse())
                    if self.peek() == ',':
                        self.next()
                self.next()
            if self.peek() == '::':
                self.next()
                if args:
                    # nested name of a template (e.g. vector<T>::value_type) -> opaque
                    name += '<' + ','.join(map(repr, args)) + '>'
                name += '::'
                continue
            break
        return T('named', name, args)


def parse_type(s):
    s = s.strip()
    p = _P(tokenize(s), s)
    t = p.parse()
    if p.peek() is not None:
        raise LowerError("trailing tokens in type %r" % s)
    return t


BUILTIN = {
    'bool': ('_Bool', 'b'), 'char': ('char', 'c'), 'signed char': ('signed char', 'i8'),
    'unsigned char': ('unsigned char', 'u8'), 'short': ('short', 'i16'), 'unsigned short': ('unsigned short', 'u16'),
    'int': ('int', 'i32'), 'unsigned int': ('unsigned int', 'u32'), 'unsigned': ('unsigned int', 'u32'),
    'long': ('long', 'i64'), 'unsigned long': ('unsigned long', 'u64'),
    'long long': ('long long', 'i64'), 'unsigned long long': ('unsigned long long', 'u64'),
    'void': ('void', 'v'), 'double': ('double', 'f64'), 'float': ('float', 'f32'),
    'uint8_t': ('unsigned char', 'u8'), 'uint16_t': ('unsigned short', 'u16'), 'uint32_t': ('unsigned int', 'u32'),
    'uint64_t': ('unsigned long', 'u64'), 'int8_t': ('signed char', 'i8'), 'int16_t': ('short', 'i16'),
    'int32_t': ('int', 'i32'), 'int64_t': ('long', 'i64'), 'size_t': ('unsigned long', 'u64'),
    'std::size_t': ('unsigned long', 'u64'), 'std::streamsize': ('long', 'i64'), 'ssize_t': ('long', 'i64'),
    'std::ptrdiff_t': ('long', 'i64'), 'ptrdiff_t': ('long', 'i64'),
    '__int128': ('__int128', 'i128'), 'unsigned __int128': ('unsigned __int128', 'u128'),
}

STRING_NAMES = {'std::string', 'std::basic_string', 'std::__cxx11::basic_string', 'basic_string', 'string'}


class Types:
    """Maps parsed C++ types to C types; records which generic instantiations are needed."""

    def __init__(self, ast, opaque=None):
        self.ast = ast
        self.inst = []          # ordered list of (macro, name, elem ctypes...) to instantiate
        self._inst_seen = set()
        self.used_records = []  # ordered record names referenced by value
        self.opaque = opaque or {}
        # class templates whose *real* instantiations are lowered as records (units about BlockTable itself); elsewhere BlockTable is abstract (A7)
        self.real = set(self.opaque.get('@real', '').split())

    def need(self, macro, name, *elems):
        k = (macro, name)
        if k not in self._inst_seen:
            self._inst_seen.add(k)
            self.inst.append((macro, name) + elems)

    def strip_ns(self, name):
        for p in ('CDNS::',):
            if name.startswith(p):
                return name[len(p):]
        return name

    def classify(self, t):
        """-> (cls, info) where cls in builtin/str/opt/vec/deq/umap/pair/uptr/record/enum/handle/ptr/ref"""
        if isinstance(t, str):
            t = parse_type(t)
        if t.kind in ('ptr', 'ref', 'arr', 'fn'):
            return t.kind, t
        n = t.name
        if n in BUILTIN:
            return 'builtin', t
        if n in STRING_NAMES:
            return 'str', t
        if n == 'boost::optional' or n == 'optional':
            return 'opt', t
        if n in ('std::vector', 'vector'):
            return 'vec', t
        if n in ('std::deque', 'deque'):
            return 'deq', t
        if n in ('std::unordered_map', 'unordered_map'):
            return 'umap', t
        if n in ('std::pair', 'pair'):
            return 'pair', t
        if n in ('std::unique_ptr', 'unique_ptr'):
            return 'uptr', t
        if n in ('std::function', 'function'):
            return 'function', t
        if n in ('std::__detail::_Node_iterator', 'std::__detail::_Node_const_iterator', 'std::__detail::_Node_iterator_base'):
            return 'iter', t
        s = self.strip_ns(n)
        if s in self.real and t.args:
            nm = s + '_' + self.mangle(t.args[0])
            if nm in self.ast.records:
                return 'record', T('named', nm)
        if s == 'BlockTable':
            return 'bt', t
        if s == 'Writer' and t.args:
            nm = 'Writer_' + self.mangle(t.args[0])
            if nm in self.ast.records:
                return 'record', T('named', nm)
        if s in self.ast.enums:
            return 'enum', t
        if s in self.ast.records:
            return 'record', t
        if s in self.ast.typedefs and s != n or s in self.ast.typedefs:
            return self.classify(parse_type(self.ast.typedefs[s]))
        return 'handle', t

    def enum_underlying(self, name):
        e = self.ast.enums[self.strip_ns(name)]
        ft = e.get('fixedUnderlyingType')
        if ft:
            return parse_type(ft.get('desugaredQualType', ft['qualType']))
        return parse_type('int')

    def ctype(self, t):
        if isinstance(t, str):
            t = parse_type(t)
        cls, t = self.classify(t)
        if cls in ('ptr', 'ref'):
            return self.ctype(t.to) + ' *'
        if cls == 'arr':
            return self.ctype(t.to) + ' *'      # member arrays: separate object (DESIGN T2)
        if cls == 'fn':
            return 'void *'                      # function (pointer) types of library callbacks: opaque
        if cls == 'builtin':
            return BUILTIN[t.name][0]
        if cls == 'str':
            return 'cstring'
        if cls == 'enum':
            return self.ctype(self.enum_underlying(t.name))
        if cls == 'record':
            n = self.strip_ns(t.name)
            if n not in self.used_records:
                self.used_records.append(n)
            return 'struct ' + n
        if cls == 'opt':
            m = self.mangle(t.args[0])
            self.need('DECL_OPT', m, self.ctype(t.args[0]))
            return 'struct opt_' + m
        if cls in ('vec', 'deq'):
            m = self.mangle(t.args[0])
            self.need('DECL_SEQ', m, self.ctype(t.args[0]))
            return 'struct seq_' + m
        if cls == 'bt':
            m = self.mangle(t.args[0])
            self.need('DECL_BT', m, self.ctype(t.args[0]))
            return 'struct bt_' + m
        if cls == 'pair':
            m = self.mangle(t.args[0]) + '_' + self.mangle(t.args[1])
            self.need('DECL_PAIR', m, self.ctype(t.args[0]), self.ctype(t.args[1]))
            return 'struct pair_' + m
        if cls == 'umap':
            m = self.mangle(t.args[0]) + '_' + self.mangle(t.args[1])
            self.need('DECL_PAIR', m, self.ctype(t.args[0]), self.ctype(t.args[1]))
            self.need('DECL_UMAP', m, self.ctype(t.args[0]), self.ctype(t.args[1]))
            return 'struct umap_' + m
        if cls == 'uptr':
            return self.ctype(t.args[0]) + ' *'
        if cls == 'function':
            return 'struct fnobj'
        if cls == 'iter':
            return self.ctype(t.args[0]) + ' *'     # iterator = pointer to the element, null = end()
        # opaque handles (library types): configured names only
        key = t.name
        if key in self.opaque:
            return self.opaque[key]
        raise LowerError("type outside the rule table: %r" % t)

    def mangle(self, t):
        if isinstance(t, str):
            t = parse_type(t)
        cls, t = self.classify(t)
        if cls == 'builtin':
            return BUILTIN[t.name][1]
        if cls == 'str':
            return 'str'
        if cls == 'enum':
            return self.mangle(self.enum_underlying(t.name))
        if cls == 'record':
            return self.strip_ns(t.name)
        if cls == 'opt':
            return 'opt_' + self.mangle(t.args[0])
        if cls in ('vec', 'deq'):
            return 'seq_' + self.mangle(t.args[0])
        if cls == 'pair':
            return 'pair_' + self.mangle(t.args[0]) + '_' + self.mangle(t.args[1])
        if cls in ('ptr', 'ref'):
            return 'p_' + self.mangle(t.to)
        if cls == 'bt':
            return 'bt_' + self.mangle(t.args[0])
        if cls == 'umap':
            return 'umap_' + self.mangle(t.args[0]) + '_' + self.mangle(t.args[1])
        if cls == 'iter':
            return 'it_' + self.mangle(t.args[0])
        if cls == 'handle':
            return re.sub(r'[^A-Za-z0-9]', '_', t.name)
        raise LowerError("cannot mangle %r" % t)
