"""cdns2c: mechanical lowering of c-dns C++ function bodies (clang JSON AST) to C for CBMC.

Closed rule table; anything outside it raises LowerError (the check then exits 2, undecided).
See DESIGN.md section 3 for what the lowering drops.
"""
import re
from ctypes_lower import T, Types, parse_type, LowerError, BUILTIN

TRANSPARENT = {'ExprWithCleanups', 'MaterializeTemporaryExpr', 'CXXBindTemporaryExpr', 'ParenExpr_',
               'SubstNonTypeTemplateParmExpr'}

EXC_BASES = {  # exception class -> kind constant (message dropped)
    'CdnsDecoderException': 'EXC_CdnsDecoderException', 'CdnsDecoderEnd': 'EXC_CdnsDecoderEnd',
    'CdnsEncoderException': 'EXC_CdnsEncoderException', 'CborOutputException': 'EXC_CborOutputException',
    'std::runtime_error': 'EXC_runtime_error', 'runtime_error': 'EXC_runtime_error',
    'std::out_of_range': 'EXC_runtime_error', 'std::exception': 'EXC_any',
}


def qt(n):
    t = n.get('type', {})
    return t.get('desugaredQualType') or t.get('qualType')


def kids(n):
    return [c for c in n.get('inner', []) if isinstance(c, dict)]


def strip(n):
    """skip transparent wrapper nodes"""
    while n.get('kind') in ('ExprWithCleanups', 'MaterializeTemporaryExpr', 'CXXBindTemporaryExpr',
                            'SubstNonTypeTemplateParmExpr', 'ConstantExpr_') and kids(n):
        n = kids(n)[0]
    return n


class Fn:
    """One lowered function: text pieces + facts for the must-fire table."""

    def __init__(self):
        self.cname = None
        self.proto = None
        self.body = None
        self.locals = []      # [(name, ctype)] in declaration order
        self.local_depth = {}  # name -> loop nesting depth at its declaration (0: function level, visible to the frame of every later loop)
        self.loops = 0
        self.calls = []       # cnames called (repo functions)
        self.calldecls = {}   # cname -> declaration node
        self.libcalls = []    # library stubs called
        self.src = None       # file:line
        self.params = []
        self.ret = None
        self.rules = {}
        self.loopinfo = {}    # loop ordinal -> facts about generated range-for loops
        self.loop_paths = {}  # loop ordinal -> nest path
        self.hoisted = []     # declarations moved from loop bodies to function level


class Lower:
    def __init__(self, ast, opaque=None, extern_records=()):
        self.ast = ast
        self.types = Types(ast, opaque or {})
        self.extern_records = set(extern_records)   # records whose layout the prelude supplies
        self.lifted = []           # generated helper functions (lambdas, read_array instances) as Fn
        self._tmp = 0
        self._overloads = {}
        self.cur = None
        self.enumconst_cache = {}
        self.cur_ret_ref = False
        self.cb_target = []
        self.loop_depth = 0
        self.register_specializations()

    def register_specializations(self):
        """complete class template specialisations (Writer<std::string>, Writer<int>) become records named like their methods' prefix"""
        for n in list(self.ast.byid.values()):
            if n.get('kind') == 'ClassTemplateSpecializationDecl' and n.get('completeDefinition') and n.get('name') in ('Writer',) + tuple(self.types.real):
                args = [a for a in n.get('inner', []) if a.get('kind') == 'TemplateArgument']
                if args and 'type' in args[0]:
                    try:
                        nm = n['name'] + '_' + self.types.mangle(args[0]['type']['qualType'])
                    except LowerError:
                        continue
                    self.ast.records.setdefault(nm, n)

    # ------------------------------------------------------------------ names
    def rec_name_of(self, fn):
        r = self.ast.record_of(fn)
        if r is None:
            return ''
        if r.get('kind') == 'ClassTemplateSpecializationDecl':
            # BlockTable<T,K> etc: name + first template arg
            args = [a for a in r.get('inner', []) if a.get('kind') == 'TemplateArgument']
            if args and 'type' in args[0]:
                return r['name'] + '_' + self.types.mangle(args[0]['type']['qualType'])
        if r.get('kind') in ('CXXRecordDecl', 'ClassTemplateSpecializationDecl'):
            return r.get('name', '')
        return ''

    def param_code(self, fn):
        ps = [c for c in kids(fn) if c.get('kind') == 'ParmVarDecl']
        if not ps:
            return 'v'
        return '_'.join(self.types.mangle(qt(p)) for p in ps)

    def _n_overloads(self, fn):
        rec = self.ast.record_of(fn)
        name = fn.get('name')
        if rec is None:
            # free function / template instantiations: count definitions + decls by name at namespace level
            c = 0
            seen = set()
            for m, d in self.ast.defs.items():
                if d.get('name') == name and not self.rec_name_of(d):
                    seen.add(m)
            return max(1, len(seen))
        names = [c.get('name') for c in kids(rec) if c.get('kind') in ('CXXMethodDecl', 'FunctionTemplateDecl')]
        return names.count(name)

    def cname(self, fn):
        name = fn.get('name') or ''
        rec = self.rec_name_of(fn)
        opmap = {'operator<': 'op_lt', 'operator<=': 'op_le', 'operator==': 'op_eq', 'operator!=': 'op_ne',
                 'operator[]': 'op_index', 'operator=': 'op_assign', 'operator()': 'op_call',
                 'operator>': 'op_gt', 'operator>=': 'op_ge'}
        if fn.get('kind') == 'CXXConstructorDecl':
            base = 'ctor'
            suffix = '__' + self.param_code(fn)
            return rec + '__' + base + suffix
        if fn.get('kind') == 'CXXDestructorDecl':
            return rec + '__dtor'
        base = opmap.get(name, name)
        if not re.match(r'^[A-Za-z_][A-Za-z_0-9]*$', base):
            raise LowerError("function name outside rule table: %r" % name)
        full = (rec + '__' if rec else '') + base
        if self._n_overloads(fn) > 1:
            full += '__' + self.param_code(fn)
        return full

    def tmp(self, p='t'):
        self._tmp += 1
        return '__%s%d' % (p, self._tmp)

    # ------------------------------------------------------------------ records
    def struct_def(self, name):
        rec = self.ast.records[name]
        lines = []
        for b in rec.get('bases', []):
            bn = self.types.strip_ns(parse_type(b['type'].get('desugaredQualType', b['type']['qualType'])).name)
            lines.append('  struct %s base; /* base class %s */' % (bn, bn))
            if bn not in self.types.used_records:
                self.types.used_records.append(bn)
        for f in kids(rec):
            if f.get('kind') == 'FieldDecl':
                lines.append('  %s %s;' % (self.types.ctype(qt(f)), f['name']))
        if not lines:
            lines.append('  char __empty;')
        return 'struct %s {\n%s\n};' % (name, '\n'.join(lines))

    def record_deps(self, name):
        """records needed *by value* inside record `name` (for ordering)"""
        rec = self.ast.records[name]
        deps = []

        def walk(t):
            cls, t2 = self.types.classify(t)
            if cls == 'record':
                deps.append(self.types.strip_ns(t2.name))
            elif cls in ('opt', 'pair', 'umap'):
                for a in t2.args[:2]:
                    walk(a)
            elif cls in ('vec', 'deq', 'bt'):
                # sequences hold elements by pointer in the abstraction, but DECL_SEQ may embed a watched
                # element by value: order element types first as well
                walk(t2.args[0])
        for b in rec.get('bases', []):
            walk(parse_type(b['type'].get('desugaredQualType', b['type']['qualType'])))
        for f in kids(rec):
            if f.get('kind') == 'FieldDecl':
                walk(parse_type(qt(f)))
        return deps

    def emit_types(self):
        """struct definitions + generic instantiations in dependency order"""
        # force ctype on all fields to collect instantiations
        done = []
        out = []
        emitted_inst = set()

        def inst_for(ct_names):
            pass

        def emit_record(n, stack=()):
            if n in done or n in self.extern_records:
                return
            if n in stack:
                raise LowerError("recursive record " + n)
            for d in self.record_deps(n):
                emit_record(d, stack + (n,))
            text = self.struct_def(n)
            done.append(n)
            out.append(('record', n, text))
        # iterate to a fixed point: struct_def may add used_records / inst
        i = 0
        while i < len(self.types.used_records):
            emit_record(self.types.used_records[i])
            i += 1
        # order instantiations relative to records: each inst is placed after the records its elems need
        res = []
        placed = set()
        rec_done = set(self.extern_records)

        def elems_ready(elems):
            for e in elems:
                for m in re.findall(r'struct (\w+)', e):
                    if m in self.ast.records and m not in rec_done:
                        return False
                    if m.startswith(('opt_', 'seq_', 'pair_', 'umap_', 'bt_')) and m not in placed:
                        return False
            return True

        pending_inst = list(self.types.inst)
        pending_rec = [x for x in out]

        def struct_ready(text):
            body = text.split('{', 1)[1]
            for m in re.findall(r'struct (\w+) (?!\*)', body):
                if m in self.ast.records and m not in rec_done:
                    return False
                if m.startswith(('opt_', 'seq_', 'pair_', 'umap_', 'bt_')) and m not in placed:
                    return False
            return True
        progress = True
        while (pending_inst or pending_rec) and progress:
            progress = False
            for it in list(pending_inst):
                if elems_ready(it[2:]):
                    if it[0] == 'DECL_OPT':
                        res.append('#ifndef VAL_EQ_%s\n#define VAL_EQ_%s(a, b) %s\n#endif' % (it[1], it[1],
                                   '((a) == (b))' if not it[2].startswith('struct ') else '0 /* record equality not needed */'))
                    if it[0] in ('DECL_SEQ', 'DECL_BT', 'DECL_UMAP'):
                        res.append('#ifndef SEQ_INV_%s\n#define SEQ_INV_%s(p) 1\n#endif' % (it[1], it[1]))
                    res.append('%s(%s)' % (it[0], ', '.join(it[1:])))
                    prefix = {'DECL_OPT': 'opt_', 'DECL_SEQ': 'seq_', 'DECL_PAIR': 'pair_', 'DECL_UMAP': 'umap_', 'DECL_BT': 'bt_'}[it[0]]
                    placed.add(prefix + it[1])
                    pending_inst.remove(it)
                    progress = True
            for r in list(pending_rec):
                if struct_ready(r[2]):
                    res.append(r[2])
                    rec_done.add(r[1])
                    pending_rec.remove(r)
                    progress = True
            # new instantiations may have been requested
            for it in self.types.inst:
                prefix = {'DECL_OPT': 'opt_', 'DECL_SEQ': 'seq_', 'DECL_PAIR': 'pair_', 'DECL_UMAP': 'umap_', 'DECL_BT': 'bt_'}[it[0]]
                if prefix + it[1] not in placed and it not in pending_inst:
                    pending_inst.append(it)
                    progress = True
        if pending_inst or pending_rec:
            raise LowerError("cannot order type definitions: %r %r" % (pending_inst, [r[1] for r in pending_rec]))
        return '\n'.join(res)

    def gen_default(self, rn):
        """implicit default constructor of record rn: in-class member initialisers, otherwise default-initialised members"""
        f = Fn()
        prev = (self.cur, getattr(self, 'pre', []), getattr(self, 'exc_exit', []), getattr(self, 'local_ids', set()),
                getattr(self, 'rename', {}), getattr(self, 'vla_len', {}), self.cur_ret_ref)
        self.cur = f
        self.pre = []
        self.local_ids = set()
        self.rename = {}
        self.cur_ret_ref = False
        f.cname = rn + '__default'
        f.ret = 'struct ' + rn
        f.params = []
        f.src = 'implicit default constructor of ' + rn
        self.exc_exit = ['return __obj;']
        out = ['  struct %s __obj;' % rn, '  struct %s *this = &__obj;' % rn]
        rec = self.ast.records[rn]
        for b in rec.get('bases', []):
            bn = self.types.strip_ns(parse_type(b['type'].get('desugaredQualType', b['type']['qualType'])).name)
            ctor = self.find_default_ctor(bn)
            cn = self.cname(ctor) if ctor is not None else bn + '__default'
            f.calls.append(cn)
            if ctor is not None:
                f.calldecls[cn] = ctor
            out.append('  this->base = %s();' % cn)
        for fd in kids(rec):
            if fd.get('kind') != 'FieldDecl':
                continue
            name = fd['name']
            init = [c for c in kids(fd) if c.get('kind') not in ('FullComment',)]
            cls, t = self.types.classify(qt(fd))
            self.types.ctype(t)
            if init:
                e = self.ex(init[0])
                if cls == 'opt' and self.types.classify(qt(strip(init[0])))[0] != 'opt':
                    out.append('  this->%s.has = 1; this->%s.val = %s;' % (name, name, e))
                else:
                    out.append('  this->%s = %s;' % (name, e))
            elif cls == 'opt':
                out.append('  this->%s.has = 0;' % name)
            elif cls == 'str':
                out.append('  this->%s = cstring__empty();' % name)
            elif cls in ('vec', 'deq', 'bt', 'umap'):
                out.append('  this->%s.n = 0;' % name)
            elif cls == 'record':
                sub = self.types.strip_ns(t.name)
                ctor = self.find_default_ctor(sub)
                cn = self.cname(ctor) if ctor is not None else sub + '__default'
                f.calls.append(cn)
                if ctor is not None:
                    f.calldecls[cn] = ctor
                out.append('  this->%s = %s();' % (name, cn))
            # scalars: default-initialisation leaves them indeterminate
        out.append('  return __obj;')
        f.body = '\n'.join(out)
        f.proto = 'struct %s %s(void)' % (rn, f.cname)
        self.cur, self.pre, self.exc_exit, self.local_ids, self.rename, self.vla_len, self.cur_ret_ref = prev
        return f

    # ------------------------------------------------------------------ constants
    def const_var(self, decl_id):
        """namespace/class scope constant with integral initialiser -> C expression, else None"""
        v = self.ast.vars.get(decl_id) or self.ast.byid.get(decl_id)
        if not v or v.get('kind') != 'VarDecl':
            return None
        cls, _ = self.types.classify(qt(v))
        if cls not in ('builtin', 'enum'):
            return None
        init = [c for c in kids(v) if c.get('kind') not in ('FullComment',)]
        if not init:
            return None
        return '((%s)%s)' % (self.types.ctype(qt(v)), self.ex(init[0]))

    def enum_const(self, ref):
        """EnumConstantDecl id -> integer literal (clang's evaluated value)"""
        i = ref['id']
        if i in self.enumconst_cache:
            return self.enumconst_cache[i]
        if not self.enumconst_cache:
            for en in self.ast.enums.values():
                val = -1
                for c in kids(en):
                    if c.get('kind') != 'EnumConstantDecl':
                        continue
                    v = None
                    for cc in kids(c):
                        v = self._find_value(cc)
                        if v is not None:
                            break
                    if v is None:
                        val = val + 1
                    else:
                        val = int(v)
                    ut = self.types.ctype(self.types.enum_underlying(en['name']))
                    self.enumconst_cache[c['id']] = '((%s)%d)' % (ut, val)
        if i not in self.enumconst_cache:
            ext = {'LZMA_RUN': 0, 'LZMA_FINISH': 3, 'LZMA_OK': 0, 'LZMA_STREAM_END': 1, 'LZMA_CHECK_CRC64': 4}   # liblzma ABI constants (lzma/base.h, check.h)
            if ref.get('name') in ext:
                return '((int)%d)' % ext[ref['name']]
            raise LowerError("unknown enum constant " + ref.get('name', '?'))
        return self.enumconst_cache[i]

    def _find_value(self, n):
        if n.get('kind') == 'ConstantExpr' and 'value' in n:
            return n['value']
        if n.get('kind') == 'IntegerLiteral':
            return n['value']
        for c in kids(n):
            v = self._find_value(c)
            if v is not None:
                return v
        return None

    # ------------------------------------------------------------------ expressions
    def is_ref_decl(self, ref):
        d = self.ast.byid.get(ref['id'])
        t = (d or ref).get('type', {})
        q = t.get('desugaredQualType') or t.get('qualType') or ''
        return q.rstrip().endswith('&')

    def addr(self, e):
        """address of a C lvalue expression text"""
        e = e.strip()
        if e.startswith('(*') and e.endswith(')') and self._balanced(e[2:-1]):
            return e[2:-1]
        return '&' + e

    def deref(self, e):
        e = e.strip()
        if e.startswith('&') and self._balanced(e[1:]) and re.match(r'^&[A-Za-z_(]', e):
            inner = e[1:]
            if re.match(r'^[A-Za-z_][A-Za-z_0-9]*(->[A-Za-z_][A-Za-z_0-9]*|\.[A-Za-z_][A-Za-z_0-9]*)*$', inner) or \
               (inner.startswith('(') and inner.endswith(')') and self._balanced(inner[1:-1])):
                return inner
        return '(*%s)' % e

    def _balanced(self, s):
        d = 0
        for ch in s:
            if ch == '(':
                d += 1
            elif ch == ')':
                d -= 1
                if d < 0:
                    return False
        return d == 0

    def member(self, base_lvalue, name):
        b = base_lvalue.strip()
        if b.startswith('(*') and b.endswith(')') and self._balanced(b[2:-1]):
            inner = b[2:-1]
            if re.match(r'^[A-Za-z_][A-Za-z_0-9]*$', inner):
                return '%s->%s' % (inner, name)
            return '(%s)->%s' % (inner, name)
        return '%s.%s' % (b, name)

    def rule(self, k):
        if self.cur is not None:
            self.cur.rules[k] = self.cur.rules.get(k, 0) + 1

    def ex(self, n):
        k = n.get('kind')
        self.rule(k)
        m = getattr(self, 'ex_' + k, None)
        if m is None:
            raise LowerError("expression node outside rule table: %s (%s) in %s" % (k, qt(n), self.cur.cname if self.cur else '?'))
        return m(n)

    def ex_ExprWithCleanups(self, n):
        return self.ex(kids(n)[0])
    ex_MaterializeTemporaryExpr = ex_ExprWithCleanups
    ex_CXXBindTemporaryExpr = ex_ExprWithCleanups
    ex_SubstNonTypeTemplateParmExpr = ex_ExprWithCleanups

    def ex_ParenExpr(self, n):
        return '(%s)' % self.ex(kids(n)[0])

    def ex_ConstantExpr(self, n):
        cls, _ = self.types.classify(qt(n))
        if 'value' in n and cls in ('builtin', 'enum'):
            return '((%s)%s)' % (self.types.ctype(qt(n)), n['value'])
        return self.ex(kids(n)[0])

    def ex_IntegerLiteral(self, n):
        t = self.types.ctype(qt(n))
        suf = {'int': '', 'unsigned int': 'U', 'long': 'L', 'unsigned long': 'UL', 'long long': 'LL',
               'unsigned long long': 'ULL'}.get(t, '')
        return n['value'] + suf

    def ex_CXXBoolLiteralExpr(self, n):
        return '((_Bool)%d)' % (1 if n['value'] else 0)

    def ex_CharacterLiteral(self, n):
        return "((char)%d)" % n['value']

    def ex_StringLiteral(self, n):
        return n['value']

    def ex_GNUNullExpr(self, n):
        return '0'

    def ex_CXXNullPtrLiteralExpr(self, n):
        return '0'

    def ex_CXXThisExpr(self, n):
        return 'this'

    def ex_DeclRefExpr(self, n):
        ref = n['referencedDecl']
        rk = ref.get('kind')
        if rk == 'EnumConstantDecl':
            return self.enum_const(ref)
        if rk in ('VarDecl', 'ParmVarDecl'):
            name = ref.get('name')
            d = self.ast.byid.get(ref['id'])
            if rk == 'VarDecl' and ref['id'] not in self.local_ids:
                c = self.const_var(ref['id'])
                if c is not None:
                    return c
                if name == 'none':
                    return 'BOOST_NONE'
                return 'g_' + name     # namespace-scope object (prelude supplies it)
            name = self.rename.get(ref['id'], name)
            if self.is_ref_decl(ref):
                return '(*%s)' % name
            return name
        if rk in ('FunctionDecl', 'CXXMethodDecl'):
            return '@fn:' + ref['id']
        raise LowerError("DeclRefExpr to %s" % rk)

    def ex_MemberExpr(self, n):
        base = kids(n)[0]
        b = self.ex(base)
        if n.get('isArrow'):
            b = self.deref(b)
        name = n['name']
        e = self.member(b, name)
        fd = self.ast.byid.get(n.get('referencedMemberDecl'))
        if fd is not None and fd.get('kind') == 'FieldDecl' and (qt(fd) or '').rstrip().endswith('&'):
            return '(*%s)' % e       # reference member: stored as pointer
        return e

    def ex_ArraySubscriptExpr(self, n):
        a, i = kids(n)
        return '%s[%s]' % (self.ex(a), self.ex(i))

    CAST_TRANSPARENT = {'LValueToRValue', 'NoOp', 'ArrayToPointerDecay', 'FunctionToPointerDecay',
                        'ConstructorConversion', 'UserDefinedConversion'}

    def ex_ImplicitCastExpr(self, n):
        ck = n.get('castKind')
        sub = kids(n)[0]
        if ck in self.CAST_TRANSPARENT:
            return self.ex(sub)
        if ck in ('IntegralCast', 'IntegralToBoolean', 'BitCast', 'NullToPointer', 'PointerToBoolean',
                  'IntegralToFloating', 'FloatingToIntegral', 'BooleanToSignedIntegral'):
            if ck == 'NullToPointer':
                return '((%s)0)' % self.types.ctype(qt(n))
            return '((%s)%s)' % (self.types.ctype(qt(n)), self.ex(sub))
        if ck in ('UncheckedDerivedToBase', 'DerivedToBase'):
            tq = qt(n)
            cls, t = self.types.classify(tq.rstrip('*& ').strip() if tq.rstrip().endswith('*') else tq)
            e = self.ex(sub)
            if cls == 'record':
                if qt(n).rstrip().endswith('*'):
                    return '(&%s)' % self.member(self.deref(e), 'base')
                return self.member(e, 'base')
            return e      # library base (basic_ios of istream): same handle
        if ck == 'ToVoid':
            return '((void)%s)' % self.ex(sub)
        raise LowerError("cast kind outside rule table: " + str(ck))

    def ex_CXXStaticCastExpr(self, n):
        sub = kids(n)[0]
        ck = n.get('castKind')
        cls, _ = self.types.classify(qt(n))
        if ck == 'NoOp' or cls in ('record', 'opt', 'str'):
            return self.ex(sub)
        return '((%s)%s)' % (self.types.ctype(qt(n)), self.ex(sub))
    ex_CXXReinterpretCastExpr = ex_CXXStaticCastExpr
    ex_CStyleCastExpr = ex_CXXStaticCastExpr

    def ex_CXXFunctionalCastExpr(self, n):
        sub = kids(n)[0]
        cls, _ = self.types.classify(qt(n))
        if cls in ('builtin', 'enum'):
            return '((%s)%s)' % (self.types.ctype(qt(n)), self.ex(sub))
        return self.ex(sub)

    def ex_UnaryOperator(self, n):
        op = n['opcode']
        sub = self.ex(kids(n)[0])
        if n.get('isPostfix'):
            return '(%s%s)' % (sub, op)
        if op == '&':
            return self.addr(sub) if not sub.startswith('&') else '(&%s)' % sub
        if op == '*':
            return self.deref(sub)
        return '(%s%s)' % (op, sub)

    def ex_BinaryOperator(self, n):
        a, b = kids(n)
        op = n['opcode']
        if op == ',':
            return '(%s, %s)' % (self.ex(a), self.ex(b))
        if op == '=':
            if strip(b).get('kind') == 'InitListExpr' and self.types.classify(qt(a))[0] == 'handle':
                hn = re.sub(r'[^A-Za-z0-9]', '_', self.types.ctype(qt(a)).replace('struct ', ''))
                return '%s__init(%s)' % (hn, self.addr(self.ex(a)))      # = LZMA_STREAM_INIT and similar all-zero initialisers
            return '%s = %s' % (self.ex(a), self.ex(b))
        return '(%s %s %s)' % (self.ex(a), op, self.ex(b))

    def ex_CompoundAssignOperator(self, n):
        a, b = kids(n)
        # C and C++ agree on the usual arithmetic conversions for compound assignment
        return '%s %s %s' % (self.ex(a), n['opcode'], self.ex(b))

    def ex_ConditionalOperator(self, n):
        c, a, b = kids(n)
        return '(%s ? %s : %s)' % (self.ex(c), self.ex(a), self.ex(b))

    def ex_UnaryExprOrTypeTraitExpr(self, n):
        if n.get('name') != 'sizeof':
            raise LowerError("trait " + str(n.get('name')))
        ks = kids(n)
        if ks:
            sub = strip(ks[0])
            while sub.get('kind') == 'ParenExpr':
                sub = kids(sub)[0]
            t = parse_type(qt(sub))
            if t.kind == 'arr':
                if t.arr.isdigit():
                    return '((unsigned long)(%s * sizeof(%s)))' % (t.arr, self.types.ctype(t.to))
                # VLA: sizeof evaluated from the lowered length expression
                rd = sub.get('referencedDecl')
                if rd and rd['id'] in self.vla_len:
                    return '((unsigned long)(%s))' % self.vla_len[rd['id']]
                raise LowerError("sizeof of array of unknown bound")
            return 'sizeof(%s)' % self.types.ctype(qt(sub))
        return 'sizeof(%s)' % self.types.ctype(n['argType']['qualType'])

    def ex_InitListExpr(self, n):
        # all-zero aggregate initialiser of an opaque library struct (LZMA_STREAM_INIT): a zero compound literal
        cls, t = self.types.classify(qt(n))
        def zero(x):
            x = strip(x)
            while x.get('kind') in ('ImplicitCastExpr', 'CStyleCastExpr', 'ParenExpr', 'CXXStaticCastExpr') and kids(x):
                x = strip(kids(x)[0])
            if x.get('kind') in ('IntegerLiteral',):
                return str(x.get('value')) == '0'
            if x.get('kind') in ('GNUNullExpr', 'CXXNullPtrLiteralExpr', 'ImplicitValueInitExpr'):
                return True
            if x.get('kind') == 'DeclRefExpr' and x.get('referencedDecl', {}).get('kind') == 'EnumConstantDecl':
                return x['referencedDecl'].get('name') == 'LZMA_RESERVED_ENUM'      # liblzma: LZMA_RESERVED_ENUM = 0 (lzma/base.h)
            return False
        if cls == 'handle' and t.name in self.types.opaque and all(zero(k) for k in kids(n)):
            return '(%s){0}' % self.types.ctype(t)
        raise LowerError("InitListExpr in expression position")

    def ex_CXXDefaultArgExpr(self, n):
        raise LowerError("CXXDefaultArgExpr must be resolved at the call")

    def ex_ImplicitValueInitExpr(self, n):
        return '((%s)0)' % self.types.ctype(qt(n))

    def ex_CXXScalarValueInitExpr(self, n):
        return '((%s)0)' % self.types.ctype(qt(n))

    # ---- calls
    def callee_decl(self, n):
        f = kids(n)[0]
        while f.get('kind') in ('ImplicitCastExpr', 'ParenExpr'):
            f = kids(f)[0]
        if f.get('kind') == 'MemberExpr':
            d = self.ast.byid.get(f.get('referencedMemberDecl'))
            return f, d
        if f.get('kind') == 'DeclRefExpr':
            d = self.ast.byid.get(f['referencedDecl']['id']) or f['referencedDecl']
            return f, d
        raise LowerError("callee form %s" % f.get('kind'))

    def is_repo_fn(self, d):
        if d is None:
            return False
        if d['id'] in self.ast.decl2def:
            return True
        r = self.ast.record_of(d)
        if r is not None and r.get('name') in self.ast.records:
            return True
        m = d.get('mangledName', '')
        return m.startswith('_ZN4CDNS') or m.startswith('_ZNK4CDNS')

    def args_for(self, d, args):
        """lower call arguments against the callee's parameter types (reference params take addresses)"""
        ps = [c for c in kids(d) if c.get('kind') == 'ParmVarDecl'] if d else []
        out = []
        for i, a in enumerate(args):
            if a.get('kind') == 'CXXDefaultArgExpr':
                p = ps[i]
                init = [c for c in kids(p)]
                if not init:
                    raise LowerError("default argument without initialiser")
                a = init[0]
            pt = qt(ps[i]) if i < len(ps) else None
            if pt and pt.rstrip().endswith('&'):
                out.append(self.ref_arg(a, pt))
            else:
                out.append(self.ex(a))
        return out

    def ref_arg(self, a, pt):
        """argument bound to a reference parameter -> pointer expression"""
        s = strip(a)
        vc = s.get('valueCategory')
        e = self.ex(a)
        if vc == 'lvalue' or (vc == 'xvalue' and self._is_lvalue_text(e)):
            return self.addr(e)
        # prvalue bound to const T& : materialise a temporary
        ct = self.types.ctype(parse_type(pt).to)
        if ct.startswith('struct ') or ct == 'cstring':
            t = self.tmp()
            self.pre.append('%s %s = %s;' % (ct, t, e))
            return '&' + t
        return '&(%s){%s}' % (ct, e)

    def _is_lvalue_text(self, e):
        return bool(re.match(r'^[A-Za-z_(][A-Za-z_0-9>.()*\-\[\]&, ]*$', e)) and not e.endswith(')') or e.startswith('(*')

    def ex_CallExpr(self, n):
        f, d = self.callee_decl(n)
        args = kids(n)[1:]
        name = (d or {}).get('name')
        if name == 'get_map_index' and self.is_repo_fn(d):
            # constexpr identity cast of an enum to its underlying type (format_specification.h)
            return '((%s)%s)' % (self.types.ctype(qt(n)), self.ex(args[0]))
        if self.is_repo_fn(d):
            df = self.ast.decl2def.get(d['id'], d)
            cn = self.cname(df)
            self.cur.calls.append(cn)
            self.cur.calldecls[cn] = df
            call = '%s(%s)' % (cn, ', '.join(self.args_for(df, args)))
            return '(*%s)' % call if self.returns_ref(df) else call
        return self.lib_free_call(name, d, args, n)

    def find_lambda(self, n):
        if n.get('kind') == 'LambdaExpr':
            return n
        for c in kids(n):
            r = self.find_lambda(c)
            if r is not None:
                return r
        return None

    def lift_callback_call(self, n, f, d, args, optr):
        """dec.read_array(lambda): the header function is lowered once per call site with the callback inlined as a
        lifted function (DESIGN section 3: LambdaExpr passed to read_array)"""
        lam = self.find_lambda(args[0])
        if lam is None:
            raise LowerError('std::function argument that is not a lambda')
        self._lift = getattr(self, '_lift', 0) + 1
        k = self._lift
        outer = self.cur
        # lambda operator()
        op = None
        for c in kids(lam):
            if c.get('kind') == 'CXXRecordDecl':
                for m in kids(c):
                    if m.get('kind') == 'CXXMethodDecl' and m.get('name') == 'operator()':
                        op = m
        if op is None:
            raise LowerError('lambda without operator()')
        cap_t = None
        this_nodes = [c for c in kids(lam) if c.get('kind') == 'CXXThisExpr']
        if not this_nodes:
            raise LowerError('lambda that does not capture this')
        cap_ct = self.types.ctype(qt(this_nodes[0]))
        lname = '%s__lambda%d' % (outer.cname, k)
        lf = self.lower_function(op, cname=lname, force_this=cap_ct)
        self.lifted.append(lf)
        # the header function with cb(*this) bound to the lifted lambda
        df = self.ast.decl2def.get(d['id'], d)
        iname = '%s__%s__%d' % (self.cname(df), outer.cname, k)
        self.cb_target.append((lname, 'cap'))
        inst = self.lower_function(df, cname=iname, extra_params=[(cap_ct, 'cap')], drop_params=['cb'])
        self.cb_target.pop()
        self.lifted.append(inst)
        outer.calls.append(iname)
        outer.lifted_names = getattr(outer, 'lifted_names', []) + [lname, iname]
        return '%s(%s, this)' % (iname, optr)

    def ex_CXXMemberCallExpr(self, n):
        f, d = self.callee_decl(n)
        args = kids(n)[1:]
        obj = kids(f)[0]
        oe = self.ex(obj)
        if args and self.types.classify(qt(strip(args[0])))[0] == 'function' and self.is_repo_fn(d):
            optr0 = oe if f.get('isArrow') else self.addr(oe)
            return self.lift_callback_call(n, f, d, args, optr0)
        if f.get('isArrow'):
            optr = oe
        else:
            optr = self.addr(oe)
        ocls, ot = self.types.classify(self.obj_type(obj, f))
        if ocls in ('record', 'bt') or (self.is_repo_fn(d) and ocls not in ('opt', 'str', 'vec', 'deq', 'umap', 'uptr')):
            df = self.ast.decl2def.get(d['id'], d)
            cn = self.cname(df)
            self.cur.calls.append(cn)
            self.cur.calldecls[cn] = df
            call = '%s(%s)' % (cn, ', '.join([optr] + self.args_for(df, args)))
            return '(*%s)' % call if self.returns_ref(df) else call
        return self.lib_method(ocls, ot, f['name'], optr, oe, d, args, n)

    def obj_type(self, obj, f):
        t = qt(obj)
        if f.get('isArrow'):
            pt = parse_type(t)
            if pt.kind == 'ptr':
                return pt.to
            cls, p2 = self.types.classify(pt)
            if cls == 'uptr':
                return p2.args[0]
            return pt
        return parse_type(t)

    # ---- library vocabulary (closed)
    def opt_parts(self, optr):
        lv = self.deref(optr)
        return self.member(lv, 'has'), self.member(lv, 'val')

    def lib_method(self, cls, t, name, optr, oe, d, args, n):
        self.cur.libcalls.append('%s.%s' % (cls, name))
        if cls == 'opt':
            m = self.types.mangle(t.args[0])
            self.types.ctype(t)
            if name in ('operator bool', 'is_initialized', 'has_value'):
                return self.opt_parts(optr)[0]
            if name in ('value', 'get'):
                return '(*opt_%s__value(%s))' % (m, optr)
            if name == 'reset':
                return '(%s = 0)' % self.opt_parts(optr)[0]
            raise LowerError("optional::" + name)
        if cls == 'str':
            if name in ('size', 'length'):
                return 'cstring__size(%s)' % optr
            if name in ('data', 'c_str'):
                if optr.startswith('&(') and not oe.strip().startswith('(*'):
                    return 'cstring__data_v(%s)' % oe       # c_str() of a temporary string
                return 'cstring__data(%s)' % optr
            if name == 'empty':
                return '(cstring__size(%s) == 0)' % optr
            if name in ('push_back', 'reserve', 'clear'):
                return 'cstring__%s(%s)' % (name, ', '.join([optr] + [self.ex(a) for a in args]))
            if name == 'append' and len(args) == 2 and parse_type(qt(strip(args[0]))).kind == 'ptr':
                return 'cstring__append(%s)' % ', '.join([optr] + [self.ex(a) for a in args])      # append(const char*, n)
            if name in ('begin', 'end'):
                return 'cstring__%s(%s)' % (name, optr)
            raise LowerError("string::" + name)
        if cls in ('vec', 'deq'):
            m = self.types.mangle(t.args[0])
            self.types.ctype(t)
            if name == 'size':
                return 'seq_%s__size(%s)' % (m, optr)
            if name == 'empty':
                return '(seq_%s__size(%s) == 0)' % (m, optr)
            if name == 'clear':
                return 'seq_%s__clear(%s)' % (m, optr)
            if name == 'reserve':
                return 'seq_%s__reserve(%s, %s)' % (m, optr, self.ex(args[0]))
            if name in ('push_back', 'emplace_back'):
                et = t.args[0]
                a = self.elem_arg(args[0], et)
                return 'seq_%s__push_back(%s, %s)' % (m, optr, a)
            if name == 'back':
                return '(*seq_%s__back(%s))' % (m, optr)
            if name == 'data':
                return 'seq_%s__data(%s)' % (m, optr)
            if name in ('at',):
                return '(*seq_%s__at(%s, %s))' % (m, optr, self.ex(args[0]))
            if name == 'operator=' and len(args) == 1:
                return 'seq_%s__assign(%s, %s)' % (m, optr, self.addr(self.ex(args[0])))      # (member-call form in implicitly defined operator=)
            raise LowerError("vector::" + name)
        if cls == 'umap':
            m = self.types.mangle(t.args[0]) + '_' + self.types.mangle(t.args[1])
            self.types.ctype(t)
            if name == 'end':
                return '((struct pair_%s *)0)' % m
            if name in ('size', 'clear', 'begin'):
                return 'umap_%s__%s(%s)' % (m, name, optr)
            if name == 'find':
                return 'umap_%s__find(%s, %s)' % (m, optr, self.elem_arg(args[0], t.args[0]))
            if name == 'operator=' and len(args) == 1:
                return 'umap_%s__assign(%s, %s)' % (m, optr, self.addr(self.ex(args[0])))
            raise LowerError("unordered_map::" + name)
        if cls == 'uptr':
            if name in ('get',):
                return oe
            raise LowerError("unique_ptr::" + name)
        if cls == 'handle':
            hn = re.sub(r'[^A-Za-z0-9]', '_', self.types.ctype(t).replace('struct ', ''))
            a = [self.ex(x) for x in args if x.get('kind') != 'CXXDefaultArgExpr']
            return '%s__%s(%s)' % (hn, re.sub(r'[^A-Za-z0-9_]', '_', name), ', '.join([optr] + a))
        raise LowerError("method %s on %s" % (name, cls))

    def elem_arg(self, a, et):
        """value argument for a by-value element store (push_back): pointer to the value"""
        ct = self.types.ctype(et)
        s = strip(a)
        e = self.ex(a)
        if s.get('valueCategory') == 'lvalue':
            return self.addr(e)
        if ct.startswith('struct ') or ct == 'cstring':
            t = self.tmp()
            self.pre.append('%s %s = %s;' % (ct, t, e))
            return '&' + t
        return '&(%s){%s}' % (ct, e)

    def _begin_end_of(self, x):
        """(object node, 'begin'|'end') if x is s.begin()/s.end() of a std::string lvalue, else None"""
        x = strip(x)
        while x.get('kind') in ('CXXConstructExpr', 'ImplicitCastExpr', 'MaterializeTemporaryExpr') and kids(x):
            x = strip(kids(x)[0])
        if x.get('kind') != 'CXXMemberCallExpr':
            return None
        me = strip(kids(x)[0])
        if me.get('kind') != 'MemberExpr' or me.get('name') not in ('begin', 'end'):
            return None
        obj = strip(kids(me)[0])
        if self.types.classify(qt(obj))[0] != 'str':
            return None
        return obj, me['name']

    def lib_free_call(self, name, d, args, n):
        self.cur.libcalls.append('::' + str(name))
        if name == 'transform' and len(args) == 4:
            # std::transform(s.begin(), s.end(), s.begin(), toupper): in-place upper-casing of one string
            be = [self._begin_end_of(x) for x in args[:3]]
            fn = strip(args[3])
            while fn.get('kind') == 'ImplicitCastExpr':
                fn = strip(kids(fn)[0])
            if all(be) and [b[1] for b in be] == ['begin', 'end', 'begin'] and fn.get('referencedDecl', {}).get('name') == 'toupper':
                objs = [self.ex(b[0]) for b in be]
                if objs[0] == objs[1] == objs[2]:
                    return 'cstring__toupper(%s)' % self.addr(objs[0])
            raise LowerError("std::transform form outside the rule table")
        a = [self.ex(x) for x in args]
        if name in ('memcpy', 'memset', 'rename', 'fstat', 'toupper', 'inet_ntop', 'deflate', 'deflateEnd',
                    'deflateInit2_', 'lzma_code', 'lzma_end', 'lzma_easy_encoder', 'write', 'close', 'htons', 'ntohs',
                    '_mm_crc32_u8', '_mm_crc32_u16', '_mm_crc32_u32', '_mm_crc32_u64', 'strlen', '__errno_location'):
            return 'lib_%s(%s)' % (name, ', '.join(a))
        if name in ('move', 'forward'):
            return a[0]
        if name == 'any_cast':
            return 'any_cast__%s(%s)' % (self.types.mangle(qt(n)), ', '.join(self.addr(x) for x in a))
        if name in ('to_string',):
            return 'cstring__opaque()'
        if name in ('min', 'max') and len(a) == 2 and self.types.classify(qt(n))[0] == 'builtin':
            # std::min(a, b) = (b < a) ? b : a ; std::max(a, b) = (a < b) ? b : a   (scalar operands of one type, side-effect free in the rule table)
            return '((%s) < (%s) ? (%s) : (%s))' % ((a[1], a[0], a[1], a[0]) if name == 'min' else (a[0], a[1], a[1], a[0]))
        if name == 'eof' and not a:
            return '(-1)'         # std::char_traits<char>::eof()
        if name == 'make_unique':
            # std::make_unique<X>(args): creation of a writer object on the heap is left to the prelude (make_unique__<X> observes the arguments)
            rcls, rt = self.types.classify(qt(n))
            if rcls == 'uptr':
                self.cur.libcalls.append('std::make_unique')
                return 'make_unique__%s(%s)' % (re.sub(r'[^A-Za-z0-9_]', '_', self.types.mangle(rt.args[0])), ', '.join(a))
        raise LowerError("library call outside rule table: %s" % name)

    def ex_CXXOperatorCallExpr(self, n):
        f, d = self.callee_decl(n)
        args = kids(n)[1:]
        name = (d or {}).get('name') or f.get('referencedDecl', {}).get('name')
        a0 = args[0]
        cls, t = self.types.classify(qt(strip(a0)) if strip(a0).get('kind') != 'ImplicitCastExpr' else qt(a0))
        if cls in ('ref',):
            cls, t = self.types.classify(t.to)
        if cls == 'record' and name == 'operator=' and (d or {}).get('isImplicit'):
            # implicitly generated copy/move assignment of a plain record: member-wise copy
            return '%s = %s' % (self.ex(a0), self.ex(args[1]))
        if self.is_repo_fn(d) and cls in ('record', 'bt'):
            df = self.ast.decl2def.get(d['id'], d)
            cn = self.cname(df)
            self.cur.calls.append(cn)
            self.cur.calldecls[cn] = df
            if df.get('kind') == 'CXXMethodDecl':
                call = '%s(%s)' % (cn, ', '.join([self.addr(self.ex(a0))] + self.args_for(df, args[1:])))
            else:
                call = '%s(%s)' % (cn, ', '.join(self.args_for(df, args)))
            return '(*%s)' % call if self.returns_ref(df) else call
        self.cur.libcalls.append('%s.%s' % (cls, name))
        if cls == 'function' and name == 'operator()':
            if not getattr(self, 'cb_target', None):
                raise LowerError('call through std::function outside a lifted instance')
            tgt, cap = self.cb_target[-1]
            self.cur.calls.append(tgt)
            return '%s(%s, %s)' % (tgt, cap, self.addr(self.ex(args[1])))
        if cls == 'opt':
            m = self.types.mangle(t.args[0])
            self.types.ctype(t)
            lhs = self.ex(a0)
            has, val = self.member(lhs, 'has'), self.member(lhs, 'val')
            if name == 'operator=':
                rhs = args[1]
                return self.opt_assign(lhs, t, rhs, d)
            if name == 'operator*':
                return '(*opt_%s__value(%s))' % (m, self.addr(lhs))
            if name == 'operator->':
                return 'opt_%s__value(%s)' % (m, self.addr(lhs))
            if name == 'operator!':
                return '(!%s)' % has
            if name in ('operator<', 'operator<=', 'operator==', 'operator!='):
                return self.opt_compare(name, args, t)
            raise LowerError("optional " + name)
        if cls in ('vec', 'deq'):
            m = self.types.mangle(t.args[0])
            self.types.ctype(t)
            if name == 'operator[]':
                return '(*seq_%s__at(%s, %s))' % (m, self.addr(self.ex(a0)), self.ex(args[1]))
            if name == 'operator=':
                r = strip(args[1])
                def has_il(x):
                    x = strip(x)
                    if x.get('kind') in ('InitListExpr', 'CXXStdInitializerListExpr'):
                        return True
                    return x.get('kind') == 'CXXConstructExpr' and bool(kids(x)) and has_il(kids(x)[0])
                if has_il(r):
                    return self.seq_assign_list(m, self.addr(self.ex(a0)), r, t)
                return 'seq_%s__assign(%s, %s)' % (m, self.addr(self.ex(a0)), self.addr(self.ex(args[1])))
            if name in ('operator==', 'operator!='):
                # element-wise comparison of two vectors: left to the prelude (bt.h: content identity); a prelude without seq_<T>__eq does not link
                e = 'seq_%s__eq(%s, %s)' % (m, self.addr(self.ex(a0)), self.addr(self.ex(args[1])))
                self.cur.libcalls.append('std::vector operator==')
                return e if name == 'operator==' else '(!%s)' % e
            raise LowerError("vector " + name)
        if cls == 'str':
            if name == 'operator=':
                return '%s = %s' % (self.ex(a0), self.ex(args[1]))
            if name == 'operator[]':
                return '(*cstring__at(%s, %s))' % (self.addr(self.ex(a0)), self.ex(args[1]))
            if name in ('operator==', 'operator!='):
                e = 'cstring__eq(%s, %s)' % (self.str_ptr(a0), self.str_ptr(args[1]))
                return e if name == 'operator==' else '(!%s)' % e
            if name == 'operator+':
                # a + b on strings: a prelude may observe it (CSTRING_CONCAT, out.h: path names); by default the result is opaque
                return 'CSTRING_CONCAT(%s, %s)' % (self.str_val(a0), self.str_val(args[1]))
            raise LowerError("string " + name)
        if cls == 'umap':
            m = self.types.mangle(t.args[0]) + '_' + self.types.mangle(t.args[1])
            self.types.ctype(t)
            if name == 'operator[]':
                return '(*umap_%s__index(%s, %s))' % (m, self.addr(self.ex(a0)), self.elem_arg(args[1], t.args[0]))
            if name == 'operator=':
                return 'umap_%s__assign(%s, %s)' % (m, self.addr(self.ex(a0)), self.addr(self.ex(args[1])))
            raise LowerError("unordered_map " + name)
        if cls == 'iter':
            if name in ('operator!=', 'operator=='):
                return '(%s %s %s)' % (self.ex(a0), name[-2:], self.ex(args[1]))
            if name == 'operator->':
                return self.ex(a0)
            if name == 'operator*':
                return '(*%s)' % self.ex(a0)
            if name == 'operator=':
                return '%s = %s' % (self.ex(a0), self.ex(args[1]))
            if name == 'operator++':
                # unordered_map iterator: the next entry (arbitrary) or end()
                m = self.types.mangle(t.args[0])
                if m.startswith('pair_'):
                    e = self.ex(a0)
                    return '%s = umap_%s__next(%s)' % (e, m[5:], e)
            raise LowerError('iterator ' + name)
        if cls == 'uptr':
            if name == 'operator->':
                return self.ex(a0)
            if name == 'operator=':
                return 'uptr_assign(%s, %s)' % (self.addr(self.ex(a0)), self.ex(args[1]))
            raise LowerError("unique_ptr " + name)
        if cls == 'handle' and name == 'operator=' and t.name in ('lzma_stream', 'z_stream', 'z_stream_s'):
            return '%s = %s' % (self.ex(a0), self.ex(args[1]))        # implicit copy assignment of a C struct (lzma_stream)
        if cls == 'handle' and t.name in ('std::_Ios_Openmode', 'std::ios_base::openmode') and name in ('operator|', 'operator&') and len(args) == 2:
            return '(%s %s %s)' % (self.ex(a0), name[-1], self.ex(args[1]))     # std::ios_base::openmode is a bitmask type
        if cls == 'handle':
            # iterators and other opaque library values
            hn = re.sub(r'[^A-Za-z0-9]', '_', self.types.ctype(t).replace('struct ', '').replace(' *', '_p'))
            opn = {'operator!=': 'ne', 'operator==': 'eq', 'operator->': 'arrow', 'operator*': 'deref',
                   'operator++': 'inc', 'operator<<': 'shl', 'operator=': 'assign'}.get(name)
            if opn is None:
                raise LowerError("operator %s on handle %s" % (name, hn))
            return '%s__%s(%s)' % (hn, opn, ', '.join(self.ex(x) for x in args))
        raise LowerError("operator call %s on %s (%r)" % (name, cls, t))

    def str_val(self, a):
        """string operand of operator+ as a value; literals carry a hash of their characters (content identity)"""
        x = strip(a)
        while x.get('kind') in ('ImplicitCastExpr', 'CXXConstructExpr', 'MaterializeTemporaryExpr', 'CXXBindTemporaryExpr') and kids(x) and x.get('kind') != 'StringLiteral':
            y = strip(kids(x)[0])
            if y.get('kind') == 'StringLiteral':
                x = y
                break
            if x.get('kind') == 'CXXConstructExpr' and len(kids(x)) != 1:
                break
            x = y
        if x.get('kind') == 'StringLiteral':
            import zlib
            txt = x.get('value', '')
            return 'CSTRING_LIT(%s, %dUL)' % (txt, zlib.crc32(txt.encode()) + (len(txt) << 32))
        cls, _ = self.types.classify(qt(strip(a)))
        if cls == 'str':
            return self.ex(a)
        return 'cstring__opaque()'

    def str_ptr(self, a):
        s = strip(a)
        e = self.ex(a)
        if s.get('kind') == 'StringLiteral' or (s.get('kind') == 'ImplicitCastExpr' and strip(kids(s)[0]).get('kind') == 'StringLiteral'):
            return 'cstring__lit(%s)' % e
        cls, _ = self.types.classify(qt(s))
        if cls == 'str':
            return self.addr(e) if s.get('valueCategory') == 'lvalue' else '&(cstring){%s}' % e
        return 'cstring__lit(%s)' % e

    def seq_assign_list(self, m, ptr, r, t):
        while r.get('kind') != 'InitListExpr':
            r = strip(kids(r)[0])
            if r.get('kind') == 'ImplicitCastExpr':
                r = strip(kids(r)[0])
        items = kids(r)
        et = self.types.ctype(t.args[0])
        self.pre.append('seq_%s__clear(%s);' % (m, ptr))
        for it in items:
            a = self.elem_arg(it, t.args[0])
            self.pre.append('seq_%s__push_back(%s, %s);' % (m, ptr, a))
        return '((void)0)'

    def opt_assign(self, lhs, t, rhs, d):
        has, val = self.member(lhs, 'has'), self.member(lhs, 'val')
        r = strip(rhs)
        rt = qt(r)
        rcls, rtt = self.types.classify(rt)
        if rt and 'none_t' in rt:
            return '%s = 0' % has
        if rcls == 'opt':
            # optional<T> = optional<T>  (same instantiation only)
            if self.types.mangle(rtt) != self.types.mangle(t):
                # optional<A> = optional<B> with scalar A, B (boost: engaged iff the source is; value converted as by static_cast)
                ca, cb = self.types.classify(t.args[0])[0], self.types.classify(rtt.args[0])[0]
                if ca in ('builtin', 'enum') and cb in ('builtin', 'enum') and r.get('valueCategory') == 'lvalue':
                    re_ = self.ex(rhs)
                    return '(%s ? (%s = (%s)%s, %s = 1) : (%s = 0))' % (self.member(re_, 'has'), val, self.types.ctype(t.args[0]), self.member(re_, 'val'), has, has)
                raise LowerError("converting optional assignment")
            return '%s = %s' % (lhs, self.ex(rhs))
        e = self.ex(rhs)
        vt = self.types.ctype(t.args[0])
        if vt.startswith('struct ') or vt == 'cstring':
            return '(%s = %s, %s = 1)' % (val, e, has)
        return '(%s = (%s)%s, %s = 1)' % (val, vt, e, has)

    def opt_compare(self, name, args, t):
        a, b = args
        ca, ta = self.types.classify(qt(strip(a)))
        cb, tb = self.types.classify(qt(strip(b)))
        ea, eb = self.ex(a), self.ex(b)
        m = self.types.mangle(t.args[0])
        op = {'operator<': 'lt', 'operator<=': 'le', 'operator==': 'eq', 'operator!=': 'ne'}[name]
        if 'none_t' in (qt(strip(b)) or ''):
            h = self.member(ea, 'has')
            return '(!%s)' % h if op == 'eq' else h
        # boost semantics: none < any value; value compare otherwise
        if ca == 'opt' and cb != 'opt':
            return 'opt_%s__%s_val(%s, %s)' % (m, op, self.addr(ea), self.ref_or_val(b, eb))
        if ca == 'opt' and cb == 'opt':
            return 'opt_%s__%s(%s, %s)' % (m, op, self.addr(ea), self.addr(eb))
        raise LowerError("optional comparison form")

    def ref_or_val(self, node, e):
        s = strip(node)
        if s.get('valueCategory') == 'lvalue':
            return self.addr(e)
        ct = self.types.ctype(qt(s))
        if ct.startswith('struct ') or ct == 'cstring':
            t = self.tmp()
            self.pre.append('%s %s = %s;' % (ct, t, e))
            return '&' + t
        return '&(%s){%s}' % (ct, e)

    def ex_CXXConstructExpr(self, n):
        cls, t = self.types.classify(qt(n))
        args = kids(n)
        ctor = n.get('ctorType', {}).get('qualType', '')
        if cls == 'opt':
            self.types.ctype(t)
            ct = self.types.ctype(t)
            if not args:
                return '(%s){0}' % ct
            a = strip(args[0])
            at = qt(a) or ''
            acls, att = self.types.classify(at)
            if 'none_t' in at:
                return '(%s){0}' % ct
            if acls == 'opt':
                return self.ex(args[0])
            vt = self.types.ctype(t.args[0])
            e = self.ex(args[0])
            if vt.startswith('struct ') or vt == 'cstring':
                return '(%s){.has = 1, .val = %s}' % (ct, e)
            return '(%s){.has = 1, .val = (%s)%s}' % (ct, vt, e)
        if 'none_t' in (qt(n) or ''):
            return 'BOOST_NONE'
        if cls == 'str':
            if not args:
                return 'cstring__empty()'
            a = strip(args[0])
            acls, _ = self.types.classify(qt(a))
            if acls == 'str':
                return self.ex(args[0])
            if len(args) >= 2 and qt(strip(args[1])) and self.types.classify(qt(strip(args[1])))[0] == 'builtin' and \
                    strip(args[1]).get('kind') != 'CXXDefaultArgExpr':
                return 'cstring__from_buf(%s, %s)' % (self.ex(args[0]), self.ex(args[1]))
            return self.deref('cstring__lit(%s)' % self.ex(args[0]))
        if cls in ('vec', 'deq'):
            m = self.types.mangle(t.args[0])
            ct = self.types.ctype(t)
            if not args:
                return 'seq_%s__empty()' % m
            a = strip(args[0])
            if self.types.classify(qt(a))[0] in ('vec', 'deq'):
                return self.ex(args[0])
            raise LowerError("vector constructor form")
        if cls == 'record':
            rn = self.types.strip_ns(t.name)
            self.types.ctype(t)
            if len(args) == 1 and self.types.classify(qt(strip(args[0])))[0] == 'record' and \
                    self.types.strip_ns(self.types.classify(qt(strip(args[0])))[1].name) == rn:
                return self.ex(args[0])      # copy / move construction: struct copy
            # user/default constructor: call the lowered constructor returning the value
            ctor_decl = self.find_ctor(rn, ctor)
            if ctor_decl is None:
                if not args:
                    self.cur.calls.append(rn + '__default')
                    return '%s__default()' % rn
                raise LowerError("constructor of %s with signature %r not found" % (rn, ctor))
            cn = self.cname(ctor_decl)
            self.cur.calls.append(cn)
            self.cur.calldecls[cn] = ctor_decl
            return '%s(%s)' % (cn, ', '.join(self.args_for(ctor_decl, args)))
        if cls == 'handle' and t.name == 'boost::any' and len(args) == 1 and t.name in self.types.opaque:
            # boost::any(const T&): tagged union constructor of the prelude
            self.cur.libcalls.append('boost::any(T)')
            return 'any__from_%s(%s)' % (self.types.mangle(qt(strip(args[0]))), self.addr(self.ex(args[0])))
        if cls == 'handle' and not args and t.name in self.types.opaque and ('ofstream' in t.name or t.name in ('z_stream', 'z_stream_s', 'lzma_stream')):
            # (value-initialisation of a C library struct is all-zero in C++ as well)
            # std::ofstream(): a stream that is not open and has no error state = the all-zero ghost struct of the prelude (A11)
            self.cur.libcalls.append('std::ofstream()')
            return '(%s){0}' % self.types.ctype(t)
        if cls == 'handle' and len(args) == 1 and t.name in ('lzma_stream', 'z_stream', 'z_stream_s') and t.name in self.types.opaque:
            return self.ex(args[0])      # copy-initialisation of a C library struct from a value of the same type (m_lzma(LZMA_STREAM_INIT))
        if cls == 'handle' or cls == 'function':
            raise LowerError("construction of library type %r" % t)
        if not args:
            if cls == 'iter':
                return '((%s)0)' % self.types.ctype(t)       # value-initialised iterator: compares equal to end() in the map model
            if cls == 'builtin':
                return '((%s)0)' % self.types.ctype(t)
            if cls == 'uptr':
                return '((%s)0)' % self.types.ctype(t)       # std::unique_ptr(): null
            if cls in ('bt', 'vec', 'deq', 'umap', 'opt'):
                return '(%s){0}' % self.types.ctype(t)       # empty container / disengaged optional
            raise LowerError("default construction of %s in expression position" % cls)
        return self.ex(args[0])
    ex_CXXTemporaryObjectExpr = ex_CXXConstructExpr

    def find_ctor(self, rn, sig):
        rec = self.ast.records.get(rn)
        if not rec:
            return None
        for c in kids(rec):
            if c.get('kind') == 'CXXConstructorDecl' and not c.get('isImplicit') and c['type']['qualType'] == sig:
                return c
        # instantiations of constructor templates
        for m, d in self.ast.defs.items():
            if d.get('kind') == 'CXXConstructorDecl' and d['type']['qualType'] == sig:
                r = self.ast.record_of(d)
                if r is not None and r.get('name') == rn:
                    return d
        return None

    def ex_CXXTypeidExpr(self, n):
        ta = n.get('typeArg', {}).get('qualType')
        if not ta:
            raise LowerError('typeid of an expression')
        return 'typeid__%s()' % self.types.mangle(ta)

    def ex_CXXThrowExpr(self, n):
        raise LowerError("throw in expression position")

    def ex_LambdaExpr(self, n):
        raise LowerError("lambda outside read_array call")

    # ------------------------------------------------------------------ statements
    def has_call(self, n):
        k = n.get('kind')
        if k in ('CXXMemberCallExpr', 'CallExpr', 'CXXOperatorCallExpr', 'CXXConstructExpr', 'CXXTemporaryObjectExpr'):
            if k == 'CallExpr':
                try:
                    f, d = self.callee_decl(n)
                    if (d or {}).get('name') == 'get_map_index':
                        return any(self.has_call(c) for c in kids(n)[1:])
                except LowerError:
                    pass
            if k in ('CXXConstructExpr', 'CXXTemporaryObjectExpr'):
                cls, _ = self.types.classify(qt(n))
                if cls != 'record':
                    return any(self.has_call(c) for c in kids(n))
            if k in ('CXXMemberCallExpr', 'CXXOperatorCallExpr'):
                # optional/handle accessors cannot throw into g_exc except value(); treat all repo calls as throwing
                try:
                    f, d = self.callee_decl(n)
                except LowerError:
                    return True
                if not self.is_repo_fn(d):
                    nm = (d or {}).get('name', '')
                    if nm in ('operator bool', 'operator!', 'size', 'operator=', 'operator*', 'operator->', 'value', 'empty'):
                        return any(self.has_call(c) for c in kids(n)[1:]) or any(self.has_call(c) for c in kids(kids(n)[0]))
            return True
        if k == 'LambdaExpr':
            return False
        return any(self.has_call(c) for c in kids(n))

    def zero(self):
        rt = self.cur.ret
        if rt == 'void':
            return 'return;'
        if rt.startswith('struct ') or rt == 'cstring':
            return 'return (%s){0};' % rt
        return 'return (%s)0;' % rt

    def exc_check(self):
        return 'if (g_exc) %s' % self.exc_exit[-1]

    def flush_pre(self, out, ind):
        for p in self.pre:
            out.append(ind + p)
        self.pre = []

    def st(self, n, ind='  '):
        k = n.get('kind')
        self.rule(k)
        out = []
        m = getattr(self, 'st_' + k, None)
        if m is not None:
            m(n, ind, out)
            return out
        # expression statement
        self.st_expr(n, ind, out)
        return out

    def st_expr(self, n, ind, out):
        s = strip(n)
        if s.get('kind') == 'CXXThrowExpr':
            return self.st_throw(s, ind, out)
        if self.is_cerr_stmt(s):
            out.append(ind + '/* std::cerr / std::cout output dropped */ ;')
            return
        hc = self.has_call(s)
        k = s.get('kind')
        # assignment whose rhs may throw: evaluate rhs first (C++ leaves lhs untouched on throw)
        if hc and k in ('BinaryOperator', 'CompoundAssignOperator') and s.get('opcode', '').endswith('=') \
                and s.get('opcode') not in ('==', '!=', '<=', '>='):
            a, b = kids(s)
            if self.has_call(b) and not self.has_call(a):
                rt = self.types.ctype(qt(b))
                eb = self.ex(b)
                self.flush_pre(out, ind)
                t = self.tmp()
                out.append('%s{ %s %s = %s;' % (ind, rt, t, eb))
                out.append('%s  %s' % (ind, self.exc_check()))
                out.append('%s  %s %s %s; }' % (ind, self.ex(a), s['opcode'], t))
                return
        if hc and k == 'CXXOperatorCallExpr':
            # optional/string assignment from a throwing call
            f, d = self.callee_decl(s)
            args = kids(s)[1:]
            nm = (d or {}).get('name')
            if nm == 'operator=' and len(args) == 2 and self.has_call(args[1]) and not self.is_repo_fn(d):
                cls, t = self.types.classify(qt(strip(args[0])))
                r = strip(args[1])
                rcls, rt_ = self.types.classify(qt(r))
                if cls in ('opt', 'str') and 'none_t' not in (qt(r) or ''):
                    rct = self.types.ctype(qt(r))
                    er = self.ex(args[1])
                    self.flush_pre(out, ind)
                    tv = self.tmp()
                    out.append('%s{ %s %s = %s;' % (ind, rct, tv, er))
                    out.append('%s  %s' % (ind, self.exc_check()))
                    lhs = self.ex(args[0])
                    if cls == 'opt' and rcls != 'opt':
                        vt = self.types.ctype(t.args[0])
                        cast = '' if (vt.startswith('struct ') or vt == 'cstring') else '(%s)' % vt
                        out.append('%s  %s = %s%s; %s = 1; }' % (ind, self.member(lhs, 'val'), cast, tv, self.member(lhs, 'has')))
                    else:
                        out.append('%s  %s = %s; }' % (ind, lhs, tv))
                    self.cur.libcalls.append('%s.operator=' % cls)
                    return
        e = self.ex(s)
        self.flush_pre(out, ind)
        out.append('%s%s;' % (ind, e))
        if hc:
            out.append('%s%s' % (ind, self.exc_check()))

    def st_throw(self, n, ind, out):
        sub = kids(n)
        if not sub:
            raise LowerError("rethrow")
        c = strip(sub[0])
        tn = qt(c)
        t = parse_type(tn).name
        t = self.types.strip_ns(t)
        kind = EXC_BASES.get(t)
        if kind is None:
            raise LowerError("throw of " + tn)
        out.append('%s{ g_exc = %s; %s }' % (ind, kind, self.exc_exit[-1]))

    def st_CompoundStmt(self, n, ind, out):
        out.append(ind + '{')
        for c in kids(n):
            out.extend(self.st(c, ind + '  '))
        out.append(ind + '}')

    def st_NullStmt(self, n, ind, out):
        out.append(ind + ';')

    def st_BreakStmt(self, n, ind, out):
        out.append(ind + 'break;')

    def st_ContinueStmt(self, n, ind, out):
        out.append(ind + 'continue;')

    def st_ReturnStmt(self, n, ind, out):
        ks = kids(n)
        if not ks:
            out.append(ind + 'return;')
            return
        e = self.ex(ks[0])
        if self.cur_ret_ref:
            e = self.addr(e)
        self.flush_pre(out, ind)
        if self.cur.ret == 'void':
            # return f(); in a void function (C++ allows a void expression here)
            out.append('%s%s;' % (ind, e))
            out.append('%sreturn;' % ind)
            return
        if self.has_call(ks[0]):
            t = self.tmp()
            out.append('%s{ %s %s = %s;' % (ind, self.cur.ret, t, e))
            out.append('%s  %s' % (ind, self.exc_check()))
            out.append('%s  return %s; }' % (ind, t))
        else:
            out.append('%sreturn %s;' % (ind, e))

    def decl_local(self, v, ind, out):
        name = v['name']
        tq = qt(v)
        self.local_ids.add(v['id'])
        pt = parse_type(tq)
        init = [c for c in kids(v)]
        if not init and self.loop_depth > 0 and pt.kind == 'named' and self.types.classify(pt)[0] in ('builtin', 'enum'):
            # an uninitialised scalar declared inside a loop body is declared once at function level instead (same meaning in C++:
            # indeterminate at each iteration); dfcc cannot frame pointers to block-scope objects of a loop body (DESIGN T26)
            ct0 = self.types.ctype(pt)
            self.cur.locals.append((name, ct0))
            self.cur.hoisted.append('%s %s;' % (ct0, name))
            return
        if pt.kind == 'arr' and not pt.arr.isdigit():
            # VLA (writer.cpp): kept as a C VLA; its bound must be the name of a local (clang prints the bound in the type)
            bound = pt.arr
            if not any(bound == n for n, _ in self.cur.locals) and not any(bound == p[1] for p in self.cur.params):
                raise LowerError("VLA bound %r is not a local of the function" % bound)
            ct = self.types.ctype(pt.to)
            self.cur.locals.append((name, ct + '[]'))
            self.vla_len[v['id']] = '(%s) * sizeof(%s)' % (bound, ct)
            out.append('%sVLA_CHECK((%s) * sizeof(%s));' % (ind, bound, ct))
            out.append('%s%s %s[%s];' % (ind, ct, name, bound))
            return
        ct = self.types.ctype(pt) if pt.kind != 'arr' else None
        if pt.kind == 'arr':
            ct = self.types.ctype(pt.to)
            self.cur.locals.append((name, ct + '[]'))
            out.append('%s%s %s[%s];' % (ind, ct, name, pt.arr))
            return
        isref = pt.kind == 'ref'
        self.cur.locals.append((name, ct))
        self.cur.local_depth.setdefault(name, self.loop_depth)
        if not init:
            cls, _ = self.types.classify(pt)
            if cls in ('record',):
                # default construction of a repo record
                rn = self.types.strip_ns(_.name)
                ctor = self.find_default_ctor(rn)
                if ctor is not None:
                    cn = self.cname(ctor)
                    self.cur.calls.append(cn)
                    out.append('%s%s %s = %s();' % (ind, ct, name, cn))
                else:
                    out.append('%s%s %s = %s__default();' % (ind, ct, name, rn))
                    self.cur.calls.append(rn + '__default')
            elif cls in ('opt',):
                out.append('%s%s %s = {0};' % (ind, ct, name))
            elif cls == 'str':
                out.append('%s%s %s = cstring__empty();' % (ind, ct, name))
            elif cls in ('vec', 'deq'):
                out.append('%s%s %s = seq_%s__empty();' % (ind, ct, name, self.types.mangle(_.args[0])))
            else:
                out.append('%s%s %s;' % (ind, ct, name))
            return
        i0 = init[0]
        if strip(i0).get('kind') == 'CXXConstructExpr' and not kids(strip(i0)) and self.types.classify(pt)[0] == 'handle':
            out.append('%s%s %s;' % (ind, ct, name))      # default-constructed library object (struct stat, ...)
            return
        if isref:
            e = self.ex(i0)
            self.flush_pre(out, ind)
            out.append('%s%s %s = %s;' % (ind, ct, name, self.addr(e)))
            return
        s0 = strip(i0)
        if s0.get('kind') == 'InitListExpr':
            raise LowerError("InitListExpr initialiser")
        e = self.ex(i0)
        self.flush_pre(out, ind)
        out.append('%s%s %s = %s;' % (ind, ct, name, e))
        if self.has_call(i0):
            out.append('%s%s' % (ind, self.exc_check()))

    def find_default_ctor(self, rn):
        rec = self.ast.records.get(rn)
        for c in kids(rec):
            if c.get('kind') == 'CXXConstructorDecl' and not c.get('isImplicit') and \
                    not [p for p in kids(c) if p.get('kind') == 'ParmVarDecl']:
                return c
        return None

    def st_DeclStmt(self, n, ind, out):
        for v in kids(n):
            if v.get('kind') != 'VarDecl':
                raise LowerError("declaration of " + v.get('kind'))
            self.decl_local(v, ind, out)

    def cond(self, c, ind, out):
        """lower a condition; if it can throw, hoist it into a temporary. returns C text"""
        e = self.ex(c)
        if self.pre:
            raise LowerError("temporaries needed inside a condition")
        if self.has_call(c):
            t = self.tmp('c')
            out.append('%s_Bool %s = %s;' % (ind, t, e))
            out.append('%s%s' % (ind, self.exc_check()))
            return t
        return e

    def st_IfStmt(self, n, ind, out):
        ks = kids(n)
        if n.get('hasVar') or n.get('hasInit'):
            raise LowerError("if with init/var")
        c = ks[0]
        hoist = self.has_call(c)
        if hoist:
            out.append(ind + '{')
            ind2 = ind + '  '
        else:
            ind2 = ind
        ce = self.cond(c, ind2, out)
        out.append('%sif (%s)' % (ind2, ce))
        out.extend(self.block(ks[1], ind2))
        if len(ks) > 2:
            out.append(ind2 + 'else')
            out.extend(self.block(ks[2], ind2))
        if hoist:
            out.append(ind + '}')

    def block(self, n, ind):
        if n.get('kind') == 'CompoundStmt':
            return self.st(n, ind)
        r = [ind + '{']
        r.extend(self.st(n, ind + '  '))
        r.append(ind + '}')
        return r

    def loop_marker(self):
        self.cur.loops += 1
        # nest path of the loop ("2.1" = first loop inside the second top-level loop): a key that survives the removal of other loops
        d = max(1, self.loop_depth)
        lp = getattr(self, '_lp', [])[:d]
        while len(lp) < d:
            lp.append(0)
        lp[d - 1] += 1
        self._lp = lp
        self.cur.loop_paths[self.cur.loops] = '.'.join(str(x) for x in lp)
        return '/*@LOOP %d@*/' % self.cur.loops

    def st_WhileStmt(self, n, ind, out):
        self.loop_depth += 1
        try:
            return self._st_WhileStmt(n, ind, out)
        finally:
            self.loop_depth -= 1

    def _st_WhileStmt(self, n, ind, out):
        c, body = kids(n)[-2], kids(n)[-1]
        mark = self.loop_marker()
        if self.has_call(c):
            out.append('%swhile (1) %s' % (ind, mark))
            out.append(ind + '{')
            ce = self.cond(c, ind + '  ', out)
            out.append('%s  if (!(%s)) break;' % (ind, ce))
            out.extend(self.block(body, ind + '  '))
            out.append(ind + '}')
        else:
            out.append('%swhile (%s) %s' % (ind, self.ex(c), mark))
            out.extend(self.block(body, ind))
        if self.body_may_throw(body) or self.has_call(c):
            pass

    def body_may_throw(self, b):
        return True

    def st_ForStmt(self, n, ind, out):
        self.loop_depth += 1
        try:
            return self._st_ForStmt(n, ind, out)
        finally:
            self.loop_depth -= 1

    def _st_ForStmt(self, n, ind, out):
        ks = n.get('inner', [])
        init, condvar, c, inc, body = ks
        out.append(ind + '{')
        if init:
            out.extend(self.st(init, ind + '  '))
        mark = self.loop_marker()
        if c and self.has_call(c):
            # condition with a call (v.size()): evaluated at the top of the body, as for while loops
            ie = self.ex(inc) if inc else ''
            if self.pre:
                raise LowerError("temporaries in for header")
            out.append('%s  for (; 1; %s) %s' % (ind, ie, mark))
            out.append(ind + '  {')
            ce = self.cond(c, ind + '    ', out)
            out.append('%s    if (!(%s)) break;' % (ind, ce))
            out.extend(self.block(body, ind + '    '))
            out.append(ind + '  }')
            out.append(ind + '}')
            return
        ce = self.ex(c) if c else '1'
        ie = self.ex(inc) if inc else ''
        if self.pre:
            raise LowerError("temporaries in for header")
        out.append('%s  for (; %s; %s) %s' % (ind, ce, ie, mark))
        out.extend(self.block(body, ind + '  '))
        out.append(ind + '}')

    def st_CXXForRangeStmt(self, n, ind, out):
        self.loop_depth += 1
        try:
            return self._st_CXXForRangeStmt(n, ind, out)
        finally:
            self.loop_depth -= 1

    def _st_CXXForRangeStmt(self, n, ind, out):
        ks = n.get('inner', [])
        # children: [init?] range-decl, begin-decl, end-decl, cond, inc, loopvar-decl, body
        ks = [k for k in ks]
        body = ks[-1]
        loopvar = kids(ks[-2])[0]
        rangedecl = None
        for k in ks:
            if isinstance(k, dict) and k.get('kind') == 'DeclStmt':
                v = kids(k)[0]
                if v.get('name', '').startswith('__range'):
                    rangedecl = v
                    break
        if rangedecl is None:
            raise LowerError("range-for without range declaration")
        rng = kids(rangedecl)[0]
        rcls, rt = self.types.classify(qt(strip(rng)))
        re_ = self.ex(rng)
        if self.pre:
            raise LowerError("temporaries in range expression")
        self.types.ctype(rt)
        if rcls in ('vec', 'deq'):
            m = 'seq_' + self.types.mangle(rt.args[0])
            et = rt.args[0]
        elif rcls == 'bt':
            m = 'bt_' + self.types.mangle(rt.args[0])
            et = rt.args[0]
        elif rcls == 'umap':
            m = 'umap_' + self.types.mangle(rt.args[0]) + '_' + self.types.mangle(rt.args[1])
            et = T('named', 'std::pair', [rt.args[0], rt.args[1]])
        else:
            raise LowerError("range-for over %s" % rcls)
        ect = self.types.ctype(et)
        i = self.tmp('i')
        self.local_ids.add(loopvar['id'])
        lname = loopvar['name']
        lt = parse_type(qt(loopvar))
        mark = self.loop_marker()
        rp = self.addr(re_)
        self.cur.loopinfo[self.cur.loops] = {'kind': 'range', 'counter': i, 'seq': self.deref(rp), 'elem': lname, 'elemtype': ect, 'm': m}
        out.append(ind + '{')
        out.append('%s  unsigned long %s = 0;' % (ind, i))
        out.append('%s  for (; %s < %s__size(%s); %s++) %s' % (ind, i, m, rp, i, mark))
        out.append(ind + '  {')
        if lt.kind == 'ref':
            out.append('%s    %s *%s = %s__at(%s, %s);' % (ind, ect, lname, m, rp, i))
        else:
            out.append('%s    %s %s = *%s__at(%s, %s);' % (ind, ect, lname, m, rp, i))
        self.cur.locals.append((i, 'unsigned long'))
        self.cur.locals.append((lname, ect))
        self.cur.libcalls.append('%s.range-for' % rcls)
        out.extend(self.block(body, ind + '    '))
        out.append(ind + '  }')
        out.append(ind + '}')

    def st_SwitchStmt(self, n, ind, out):
        ks = kids(n)
        c, body = ks[-2], ks[-1]
        e = self.ex(c)
        if self.pre:
            raise LowerError("temporaries in switch condition")
        if self.has_call(c):
            t = self.tmp('s')
            out.append('%s{ %s %s = %s;' % (ind, self.types.ctype(qt(c)), t, e))
            out.append('%s  %s' % (ind, self.exc_check()))
            out.append('%s  switch (%s)' % (ind, t))
            out.extend(self.st(body, ind + '  '))
            out.append(ind + '}')
        else:
            out.append('%sswitch (%s)' % (ind, e))
            out.extend(self.st(body, ind))

    def st_CaseStmt(self, n, ind, out):
        ks = kids(n)
        v = self._find_value(ks[0])
        if v is None:
            raise LowerError("case label without constant value")
        out.append('%scase %s:' % (ind[:-2], v))
        out.extend(self.st(ks[-1], ind))

    def st_DefaultStmt(self, n, ind, out):
        out.append('%sdefault:' % ind[:-2])
        out.extend(self.st(kids(n)[0], ind))

    def st_CXXTryStmt(self, n, ind, out):
        ks = kids(n)
        body = ks[0]
        handlers = ks[1:]
        lab = self.tmp('catch')
        self.exc_exit.append('goto %s;' % lab)
        out.append(ind + '{')
        out.extend(self.st(body, ind + '  '))
        self.exc_exit.pop()
        out.append('%s  %s: ;' % (ind, lab))
        for h in handlers:
            hk = kids(h)
            var = hk[0] if hk and hk[0].get('kind') == 'VarDecl' else None
            hbody = hk[-1]
            if var is not None:
                tn = parse_type(qt(var))
                while tn.kind in ('ref', 'ptr'):
                    tn = tn.to
                kind = EXC_BASES.get(self.types.strip_ns(tn.name))
                if kind is None:
                    raise LowerError("catch of " + qt(var))
                self.local_ids.add(var['id'])
            else:
                kind = 'EXC_any'
            test = 'g_exc' if kind == 'EXC_any' else 'exc_matches(g_exc, %s)' % kind
            out.append('%s  if (%s) {' % (ind, test))
            out.append('%s    g_exc = 0;' % ind)
            out.extend(self.handler_body(hbody, ind + '    '))
            out.append('%s  }' % ind)
        out.append('%s  %s' % (ind, self.exc_check()))
        out.append(ind + '}')

    def handler_body(self, b, ind):
        """catch handlers in c-dns only print to std::cerr: iostream output is dropped (DESIGN section 3)"""
        out = []
        for s in kids(b):
            if self.is_cerr_stmt(s):
                out.append(ind + '/* std::cerr output dropped */ ;')
            else:
                out.extend(self.st(s, ind))
        return out

    def is_cerr_stmt(self, s):
        s = strip(s)
        if s.get('kind') != 'CXXOperatorCallExpr':
            return False
        txt = []

        def walk(x):
            if x.get('kind') == 'DeclRefExpr' and x.get('referencedDecl', {}).get('name') in ('cerr', 'cout'):
                txt.append(1)
            for c in kids(x):
                walk(c)
        walk(s)
        return bool(txt)

    # ------------------------------------------------------------------ functions
    def lower_function(self, fn, cname=None, force_this=None, extra_params=(), drop_params=()):
        f = Fn()
        prev = (self.cur, getattr(self, 'pre', []), getattr(self, 'exc_exit', []), getattr(self, 'local_ids', set()),
                getattr(self, 'rename', {}), getattr(self, 'vla_len', {}), self.cur_ret_ref)
        self.cur = f
        self.pre = []
        self.local_ids = set()
        self.rename = {}
        self.vla_len = {}
        f.cname = cname or self.cname(fn)
        loc = fn.get('loc', {})
        f.src = '%s:%s' % (loc.get('file', loc.get('spellingLoc', {}).get('file', '?')), loc.get('line', loc.get('spellingLoc', {}).get('line', '?')))
        rec = self.rec_name_of(fn)
        is_method = fn.get('kind') in ('CXXMethodDecl', 'CXXConstructorDecl', 'CXXDestructorDecl') and fn.get('storageClass') != 'static'
        params = []
        is_ctor = fn.get('kind') == 'CXXConstructorDecl'
        if force_this:
            params.append((force_this, 'this'))     # lambda: the captured this
        elif is_method and not is_ctor:
            params.append(('struct %s *' % rec, 'this'))
            if rec in self.ast.records and rec not in self.types.used_records:
                self.types.used_records.append(rec)
        for p in kids(fn):
            if p.get('kind') == 'ParmVarDecl':
                self.local_ids.add(p['id'])
                if p.get('name') in drop_params:
                    continue
                pn = p.get('name')
                if not pn:
                    pn = self.tmp('p')
                    self.rename[p['id']] = pn       # unnamed parameter (implicitly defined special members refer to it)
                params.append((self.types.ctype(qt(p)), pn))
        params.extend(extra_params)
        f.params = params
        ft = fn['type']['qualType']
        # return type: text before the first '(' at depth 0, or trailing return
        rt = self.ret_type(fn)
        f.ret = rt
        self.cur_ret_ref = self.returns_ref(fn)
        if is_ctor:
            f.ret = 'struct ' + rec
            self.types.ctype(parse_type('CDNS::' + rec))
        self.exc_exit = [self.zero()]
        body = [c for c in kids(fn) if c.get('kind') in ('CompoundStmt', 'CXXTryStmt')]
        out = []
        if is_ctor:
            out.append('  struct %s __obj;' % rec)
            out.append('  struct %s *this = &__obj;' % rec)
            out.append('  if (g_exc) return __obj;')      # (a constructor call evaluated after an exception was raised has no effect)
            self.exc_exit = ['return __obj;']
            # member initialisers in declaration order (clang lists them in initialisation order)
            for ci in fn.get('inner', []):
                if ci.get('kind') == 'CXXCtorInitializer':
                    if 'anyInit' in ci:
                        fld = ci['anyInit']['name']
                        ik = kids(ci)
                        e = self.ex(ik[0]) if ik else '0'
                        if ik and qt(ci['anyInit']).rstrip().endswith('&'):
                            e = self.addr(e)          # reference member: bound to the object, i.e. a pointer
                        for p in self.pre:
                            out.append('  ' + p)
                        self.pre = []
                        out.append('  this->%s = %s;' % (fld, e))
                    elif 'baseInit' in ci:
                        ik = kids(ci)
                        e = self.ex(ik[0]) if ik else None
                        if e:
                            out.append('  this->base = %s;' % e)
                    else:
                        raise LowerError("ctor initialiser form")
        if not body:
            raise LowerError("function %s has no body" % f.cname)
        self.loop_depth = 0
        self._lp = []
        inner = self.st(body[0], '  ')
        out.extend('  ' + h for h in f.hoisted)
        # a call evaluated after an exception was raised (nested call arguments) must have no effect
        out.append('  if (g_exc) %s' % self.exc_exit[0])
        if is_ctor:
            inner.append('  return __obj;')
        f.body = '\n'.join(out + inner)
        f.proto = '%s %s(%s)' % (f.ret, f.cname, ', '.join('%s %s' % p for p in params) or 'void')
        self.cur, self.pre, self.exc_exit, self.local_ids, self.rename, self.vla_len, self.cur_ret_ref = prev
        return f

    def returns_ref(self, fn):
        q = fn['type']['qualType']
        d = 0
        for i, ch in enumerate(q):
            if ch == '<':
                d += 1
            elif ch == '>':
                d -= 1
            elif ch == '(' and d == 0:
                return q[:i].rstrip().endswith('&')
        return False

    def ret_type(self, fn):
        q = fn['type']['qualType']
        if fn.get('kind') == 'CXXDestructorDecl':
            return 'void'
        # find return type: handle "auto (...) -> T"
        d = 0
        idx = None
        for i, ch in enumerate(q):
            if ch == '<':
                d += 1
            elif ch == '>':
                d -= 1
            elif ch == '(' and d == 0:
                idx = i
                break
        r = q[:idx].strip()
        if r == 'auto' and '->' in q:
            r = q.split('->', 1)[1].strip()
        if fn['type'].get('desugaredQualType'):
            pass
        try:
            return self.types.ctype(r)
        except LowerError:
            # typedef'd return types: look at a ReturnStmt's expression type
            raise

    def proto_of_decl(self, d):
        """prototype for a callee that is not lowered in this unit"""
        rec = self.rec_name_of(d)
        params = []
        is_ctor = d.get('kind') == 'CXXConstructorDecl'
        if d.get('kind') in ('CXXMethodDecl', 'CXXDestructorDecl') and d.get('storageClass') != 'static':
            params.append('struct %s *this' % rec)
        for p in kids(d):
            if p.get('kind') == 'ParmVarDecl':
                params.append('%s %s' % (self.types.ctype(qt(p)), p.get('name') or ''))
        ret = ('struct ' + rec) if is_ctor else self.ret_type(d)
        return '%s %s(%s)' % (ret, self.cname(d), ', '.join(params) or 'void')


def render(f, contract='', loop_contracts=None):
    """function text with contract clauses between signature and body and loop contracts at markers"""
    body = f.body
    loop_contracts = loop_contracts or {}

    def sub(m):
        k = int(m.group(1))
        return loop_contracts.get(k, '')
    body = re.sub(r'/\*@LOOP (\d+)@\*/', sub, body)
    if f.body.lstrip().startswith('{') and not f.body.lstrip().startswith('{ '):
        return '%s\n%s\n%s\n' % (f.proto, contract, body)
    return '%s\n%s\n{\n%s\n}\n' % (f.proto, contract, body)
