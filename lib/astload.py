"""Dump and index clang's JSON AST of /repo/src (one unity TU, filter CDNS::).

The AST is taken from the *current working tree* on every run; a cache keyed by the
SHA-256 of the source contents avoids re-dumping for the several checks of one run.
"""
import hashlib, json, os, subprocess, sys, glob, pickle

REPO = os.environ.get("VERIF_REPO", "/repo")
CACHE = os.environ.get("VERIF_CACHE", "/verif/.cache")

UNITY_ORDER = ["cdns_encoder.cpp", "cdns_decoder.cpp", "timestamp.cpp", "file_preamble.cpp",
               "block.cpp", "cdns.cpp", "writer.cpp", "interface.cpp"]


def src_hash(repo=None):
    repo = repo or REPO
    h = hashlib.sha256()
    for f in sorted(glob.glob(os.path.join(repo, "src", "*.cpp")) + glob.glob(os.path.join(repo, "src", "*.h"))):
        h.update(f.encode())
        h.update(open(f, "rb").read())
    return h.hexdigest()[:24]


INSTANTIATE = '''
template std::size_t CDNS::CdnsExporter::rotate_output<std::string>(const std::string&, bool);
template std::size_t CDNS::CdnsExporter::rotate_output<int>(const int&, bool);
template void CDNS::CdnsEncoder::rotate_output<std::string>(const std::string&);
template void CDNS::CdnsEncoder::rotate_output<int>(const int&);
template CDNS::CdnsExporter::CdnsExporter(CDNS::FilePreamble&, const std::string&, CDNS::CborOutputCompression);
template CDNS::CdnsExporter::CdnsExporter(CDNS::FilePreamble&, const int&, CDNS::CborOutputCompression);
'''


FILTERS = ['CDNS::', 'get_readable_']


class AstError(Exception):
    pass


def dump(repo=None):
    """Return list of top-level JSON objects of the CDNS:: filtered dump."""
    repo = repo or REPO
    key = src_hash(repo) + hashlib.sha256((INSTANTIATE + repr(FILTERS)).encode()).hexdigest()[:6]
    os.makedirs(CACHE, exist_ok=True)
    pk = os.path.join(CACHE, "ast-%s.pickle" % key)
    if os.path.exists(pk):
        try:
            with open(pk, "rb") as f:
                return pickle.load(f)
        except Exception:
            pass
    unity = os.path.join(CACHE, "unity-%s-%d.cpp" % (key, os.getpid()))
    with open(unity, "w") as f:
        for n in UNITY_ORDER:
            p = os.path.join(repo, "src", n)
            if not os.path.exists(p):
                raise AstError("missing source file " + p)
            f.write('#include "%s"\n' % p)
        # explicit instantiations of the member templates the checks lower (forces clang to instantiate the *real* bodies)
        f.write(INSTANTIATE)
    objs = []
    # the library lives in namespace CDNS; the two file-scope helpers of interface.cpp (text renderers) are dumped by a second filter
    for flt in FILTERS:
        cmd = ["clang++", "-std=c++14", "-msse4", "-fsyntax-only", "-I", os.path.join(repo, "src"),
               "-Xclang", "-ast-dump=json", "-Xclang", "-ast-dump-filter=" + flt, unity]
        r = subprocess.run(cmd, stdout=subprocess.PIPE, stderr=subprocess.PIPE)
        if r.returncode != 0:
            try:
                os.unlink(unity)
            except OSError:
                pass
            raise AstError("clang failed on the working tree:\n" + r.stderr.decode()[-3000:])
        s = r.stdout.decode()
        dec = json.JSONDecoder()
        i = 0
        n = len(s)
        while i < n:
            while i < n and s[i] in " \n\r\t":
                i += 1
            if i >= n:
                break
            if s[i] != "{":
                i = s.index("\n", i) + 1
                continue
            o, i = dec.raw_decode(s, i)
            objs.append(o)
    try:
        os.unlink(unity)
    except OSError:
        pass
    # keep cache small: drop old pickles
    for old in glob.glob(os.path.join(CACHE, "ast-*.pickle")):
        try:
            if old != pk:
                os.unlink(old)
        except OSError:
            pass
    tmp = pk + ".%d.tmp" % os.getpid()
    with open(tmp, "wb") as f:
        pickle.dump(objs, f, protocol=pickle.HIGHEST_PROTOCOL)
    os.replace(tmp, pk)
    return objs


class Ast:
    def __init__(self, objs):
        self.objs = objs
        self.byid = {}
        self.parent_record = {}   # method id -> record node
        self.records = {}         # name -> record node (complete definition)
        self.enums = {}           # name -> enum node
        self.defs = {}            # mangledName -> function node with body
        self.decl2def = {}        # decl id -> defining node
        self.fn_by_qual = {}      # "Class::name" -> [defs]
        self.vars = {}            # id -> VarDecl (namespace scope constants)
        self.typedefs = {}        # name -> underlying qualType
        self._seen = set()
        for o in objs:
            self._index(o, None)
        # map declarations to definitions
        for m, d in list(self.defs.items()):
            self.decl2def[d["id"]] = d
            p = d.get("previousDecl")
            while p:
                self.decl2def[p] = d
                p = self.byid.get(p, {}).get("previousDecl")
        # declarations (no body) with the same mangled name
        for i, n in self.byid.items():
            if n.get("kind") in ("CXXMethodDecl", "FunctionDecl", "CXXConstructorDecl", "CXXDestructorDecl"):
                m = n.get("mangledName")
                if m and m in self.defs and i not in self.decl2def:
                    self.decl2def[i] = self.defs[m]

    def _index(self, o, rec):
        if not isinstance(o, dict):
            return
        i = o.get("id")
        k = o.get("kind")
        if i is not None and k is not None:
            # a node can be dumped several times (filter dumps nested matches again); keep the richest
            old = self.byid.get(i)
            if old is None or len(o.get("inner", [])) > len(old.get("inner", [])):
                self.byid[i] = o
        if k in ("CXXRecordDecl", "ClassTemplateSpecializationDecl"):
            if o.get("completeDefinition") and o.get("name"):
                key = o["name"]
                if k == "ClassTemplateSpecializationDecl":
                    key = None
                if key and key not in self.records:
                    self.records[key] = o
            rec = o if o.get("name") else rec
        elif k == "EnumDecl":
            if o.get("name"):
                self.enums.setdefault(o["name"], o)
        elif k in ("TypeAliasDecl", "TypedefDecl"):
            if o.get("name"):
                self.typedefs.setdefault(o["name"], o["type"].get("desugaredQualType", o["type"]["qualType"]))
        elif k in ("CXXMethodDecl", "FunctionDecl", "CXXConstructorDecl", "CXXDestructorDecl"):
            if rec is not None and i is not None:
                self.parent_record.setdefault(i, rec)
            has_body = any(isinstance(x, dict) and x.get("kind") in ("CompoundStmt", "CXXTryStmt") for x in o.get("inner", []))
            if has_body and o.get("mangledName"):
                self.defs.setdefault(o["mangledName"], o)
        elif k == "VarDecl":
            if i is not None:
                self.vars[i] = o
        for c in o.get("inner", []):
            self._index(c, rec)

    def record_of(self, fn):
        """Record node a method belongs to (via its in-class declaration)."""
        i = fn["id"]
        if i in self.parent_record and self.parent_record[i].get("name"):
            r = self.parent_record[i]
        else:
            r = None
        p = fn.get("previousDecl")
        while p and r is None:
            r = self.parent_record.get(p)
            p = self.byid.get(p, {}).get("previousDecl")
        if r is None and fn.get("parentDeclContextId"):
            r = self.byid.get(fn["parentDeclContextId"])
        return r

    def find_def(self, qual, sig=None):
        """Find a function definition by 'Class::name' and optional type signature substring."""
        cls, _, name = qual.rpartition("::")
        out = []
        for m, d in self.defs.items():
            if d.get("name") != name:
                continue
            r = self.record_of(d)
            rn = r.get("name") if r else ""
            if cls and rn != cls:
                continue
            if not cls and r is not None and r.get("kind") != "NamespaceDecl" and rn:
                continue
            if sig is not None and d["type"]["qualType"] != sig:
                continue
            out.append(d)
        return out


def load(repo=None):
    return Ast(dump(repo))


if __name__ == "__main__":
    a = load()
    print(len(a.objs), "top-level;", len(a.defs), "definitions;", len(a.records), "records;", len(a.enums), "enums")
    for q in sys.argv[1:]:
        for d in a.find_def(q):
            print(q, d["mangledName"], d["type"]["qualType"])
