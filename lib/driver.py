"""Driver: lowered unit -> goto-cc -> goto-instrument --dfcc -> cbmc, one result per obligation."""
import json, os, re, subprocess, time, shutil, resource, hashlib
from concurrent.futures import ThreadPoolExecutor
import cdns2c
from ctypes_lower import LowerError

VERIF = os.environ.get('VERIF_DIR', '/verif')
CONTRACTS = os.path.join(VERIF, 'contracts')


class Unit:
    def __init__(self, id, fn, contract='', loops=None, inline=(), replace=(), prelude='rt_common.h',
                 harness=None, setup='', args=None, post='', backend='cadical', timeout=600, mem_gb=12,
                 rec=False, cbmc_flags=(), props=(), note='', extra_c='', expect_fail=(), opaque=None,
                 split=False, tier='quick', unwindset=(), defines=(), extern_records=(), bounded=None,
                 stubs=(), variants=None, pre_c='', object_bits=None, checks=None, weight=1, bind='', ghost=(), bind_assigns=(), gen_stubs=None, lifted_loops=None, auto_inline=(), lifted_target=None, lifted_stub=None, rename_calls=None, arrays_uf=True):
        self.arrays_uf = arrays_uf   # --arrays-uf-always helps with the big byte windows and hurts units without arrays (T25)
        self.rename_calls = rename_calls or {}   # {callee C name: stub name}: call sites in the target's body are renamed (recursive calls -> contract stub)
        self.lifted_target = lifted_target   # regex: verify this lambda-lifted helper of fn instead of fn itself
        self.lifted_stub = lifted_stub       # callable(ast, L, tf, lifted) -> {cname: C body}: lifted helpers replaced by executable contracts
        self.auto_inline = list(auto_inline)   # regexes: callees lowered and inlined automatically (constructors, reset, trivial helpers)
        self.lifted_loops = lifted_loops   # callable(ast, L, tf, lifted) -> {cname: {loop: text}} for lambda-lifted helpers
        self.gen_stubs = gen_stubs or []   # [(regex on callee C name, body template with $PROTO args)] executable assumed contracts
        self.ghost = list(ghost)    # [(ctype, name, entry expression over $this/$k)] -> per-function ghost entry bindings '@name'
        self.bind_assigns = list(bind_assigns)
        self.weight = weight
        self.bind = bind            # ghost assignments emitted before each contract-replaced call of this function
        self.id = id
        self.fn = fn                  # ('Class::name', signature or None)
        self.contract = contract
        self.loops = loops or {}
        self.inline = list(inline)    # [(qual, sig)] bodies kept
        self.replace = list(replace)  # unit ids whose contract replaces the call
        self.prelude = prelude
        self.harness = harness        # full harness body override
        self.setup = setup
        self.args = args
        self.post = post
        self.backend = backend
        self.timeout = timeout
        self.mem_gb = mem_gb
        self.rec = rec
        self.cbmc_flags = list(cbmc_flags)
        self.props = list(props)
        self.note = note
        self.extra_c = extra_c
        self.pre_c = pre_c
        self.expect_fail = list(expect_fail)
        self.opaque = opaque or {}
        self.split = split
        self.tier = tier
        self.unwindset = list(unwindset)
        self.defines = list(defines)
        self.extern_records = list(extern_records)
        self.bounded = bounded
        self.stubs = list(stubs)      # [(qual, sig)] callees left as prototypes (prelude defines them)
        self.variants = variants      # list of (suffix, [defines]) -> one query each
        self.object_bits = object_bits
        self.checks = checks


class BmcUnit:
    """Bounded stand-in: real lowered bodies (no contracts), plain cbmc with --unwind K --unwinding-assertions."""
    def __init__(self, id, fns, harness, prelude, unwind, bound_text, props=(), opaque=None, stubs=(), tier='quick',
                 timeout=1800, defines=(), note='', backend='cadical', mem_gb=24, object_bits=8, unwindset=(), post_c=''):
        self.post_c = post_c      # prelude text that needs the lowered record types (emitted after them)
        self._unwindset = list(unwindset)
        self.id = id
        self.fns = list(fns)
        self.harness = harness
        self.prelude = prelude
        self.unwind = unwind
        self.bounded = bound_text
        self.props = list(props)
        self.opaque = opaque or {}
        self.stubs = list(stubs)
        self.tier = tier
        self.timeout = timeout
        self.defines = list(defines)
        self.note = note
        self.backend = backend
        self.mem_gb = mem_gb
        self.object_bits = object_bits
        self.variants = None
        self.fn = None
        self.unwindset = list(self._unwindset)
        self.cbmc_flags = []
        self.extern_records = []


def check_bmc(ast, unit, wd):
    r = UnitResult(unit)
    t0 = time.time()
    os.makedirs(wd, exist_ok=True)
    try:
        opaque = {'CDNS::BaseCborOutputWriter': 'struct BaseCborOutputWriter'}
        opaque.update(unit.opaque)
        L = cdns2c.Lower(ast, opaque=opaque)
        fns = [L.lower_function(find_one(ast, ref)) for ref in unit.fns]
        have = set(f.cname for f in fns) | set(unit.stubs)
        missing = sorted(set(c for f in fns for c in f.calls if c not in have and not any(re.match(rx + '$', c) for rx in unit.stubs)))
        if missing:
            raise LowerError('unresolved callees: ' + ', '.join(missing))
        parts = ['#define %s' % d for d in unit.defines]
        parts.append('#include "%s"' % unit.prelude)
        parts.append(L.emit_types())
        if getattr(unit, 'post_c', ''):
            parts.append(unit.post_c)
        parts += [f.proto + ';' for f in fns]
        parts += [cdns2c.render(f) for f in fns]
        parts.append('void harness(void)\n{\n%s\n}\n' % unit.harness)
        cfile = os.path.join(wd, unit.id + '.c')
        open(cfile, 'w').write('\n'.join(parts))
        gb = os.path.join(wd, unit.id + '.gb')
        rc, so, se, dt = run(['goto-cc', '--function', 'harness', '-I', CONTRACTS, '-DCANARY_ON', cfile, '-o', gb], 120)
        if rc != 0:
            raise LowerError('goto-cc failed: ' + (so + se)[-2000:])
    except LowerError as e:
        r.reason = 'extraction: ' + str(e)
        r.wall = time.time() - t0
        return r
    r.cfile, r.gb = cfile, gb
    r.facts = {'target': ', '.join(f.cname for f in fns), 'src': fns[0].src, 'inlined': [f.cname for f in fns], 'replaced': []}
    cmd = cbmc_cmd(unit, gb, [])
    r.cmd = ' '.join(cmd)
    rc, so, se, dt = run(cmd, unit.timeout, unit.mem_gb)
    r.solver_s = dt
    res, status, err = parse_json_ui(so)
    if res is None:
        r.reason = 'cbmc gave no result (rc=%s): %s' % (rc, (se or err or so[-300:])[:600])
        r.wall = time.time() - t0
        return r
    for x in res:
        pid, desc, st = x['property'], x.get('description', ''), x['status']
        if desc.startswith('CANARY'):
            r.canaries[pid] = (desc, st)
            continue
        r.obligations[pid] = {'desc': desc, 'status': st}
        if st != 'SUCCESS':
            r.failed.append(pid)
    if not r.obligations:
        r.reason = 'no obligations generated'
    elif not r.canaries or any(st == 'SUCCESS' for _, st in r.canaries.values()):
        r.reason = 'vacuous: canary missing or unreachable'
    else:
        r.status = 'failed' if r.failed else 'ok'
    r.wall = time.time() - t0
    return r


class ScanUnit:
    """Exhaustive declaration scan over the clang AST (supporting static fact, not a proof of behaviour)."""
    def __init__(self, id, fn, props=(), note='', tier='quick'):
        self.id = id
        self.scan = fn
        self.props = list(props)
        self.note = note
        self.tier = tier
        self.backend = 'clang AST scan'
        self.variants = None
        self.bounded = None
        self.fn = None
        self.timeout = 60


def check_scan(ast, unit):
    r = UnitResult(unit)
    t0 = time.time()
    try:
        items = unit.scan(ast)     # [(name, ok, description)]
    except Exception as e:
        r.reason = 'scan failed: %s' % e
        return r
    for name, ok, desc in items:
        oid = 'scan.' + re.sub(r'[^A-Za-z0-9_.:]', '_', name)
        r.obligations[oid] = {'desc': desc, 'status': 'SUCCESS' if ok else 'FAILURE'}
        if not ok:
            r.failed.append(oid)
    r.facts = {'target': 'declaration scan ' + unit.id, 'src': '/repo/src/*.{h,cpp} (AST)'}
    r.canaries = {'n/a': ('scan', 'FAILURE')}
    if not items:
        r.reason = 'scan found no declarations (vacuous)'
    else:
        r.status = 'failed' if r.failed else 'ok'
    r.cmd = 'clang++ -Xclang -ast-dump=json (lib/astload.py) + ' + unit.id
    r.wall = time.time() - t0
    return r


class Lemma:
    """An SMT-LIB lemma over mathematical integers, discharged by z3 (expected answer: unsat)."""
    def __init__(self, id, smt2, props=(), note='', tier='quick', solver='z3', timeout=60):
        self.id = id
        self.smt2 = smt2
        self.props = list(props)
        self.note = note
        self.tier = tier
        self.solver = solver
        self.timeout = timeout
        self.backend = solver
        self.variants = None
        self.bounded = None
        self.fn = None


def check_lemma(lem, wd):
    r = UnitResult(lem)
    t0 = time.time()
    os.makedirs(wd, exist_ok=True)
    f = os.path.join(wd, re.sub(r'\W', '_', lem.id) + '.smt2')
    with open(f, 'w') as fh:
        fh.write(lem.smt2)
    cmd = {'z3': ['z3', '-T:%d' % lem.timeout, f], 'cvc5': ['cvc5', '--tlimit=%d' % (lem.timeout * 1000), f]}[lem.solver]
    rc, so, se, dt = run(cmd, lem.timeout + 10, 8)
    r.solver_s = dt
    r.cmd = ' '.join(cmd)
    r.facts = {'target': 'lemma ' + lem.id, 'src': 'contracts (SMT-LIB, integers)'}
    ans = so.strip().split('\n')[-1] if so.strip() else ''
    oid = 'lemma.' + lem.id
    if ans == 'unsat':
        r.obligations[oid] = {'desc': lem.note or lem.id, 'status': 'SUCCESS'}
        r.status = 'ok'
    elif ans == 'sat':
        r.obligations[oid] = {'desc': lem.note or lem.id, 'status': 'FAILURE'}
        r.failed.append(oid)
        r.status = 'failed'
    else:
        r.reason = 'lemma undecided: ' + (so + se)[-300:]
    r.canaries = {'n/a': ('lemma', 'FAILURE')}
    r.wall = time.time() - t0
    return r


def subst(text, f):
    """$this/$1.. -> parameter names, $ret -> return value, $Lk -> k-th local"""
    if not text:
        return text
    names = [p[1] for p in f.params]

    def rp(m):
        k = m.group(1)
        if k == 'this':
            return 'this'
        if k == 'ret':
            return '__CPROVER_return_value'
        if k.startswith('L'):
            alias = getattr(f, 'local_alias', {}).get(int(k[1:]))
            if alias:
                return alias
            i = int(k[1:]) - 1
            if i >= len(f.locals):
                raise LowerError("contract of %s mentions local #%d but the function declares %d" % (f.cname, i + 1, len(f.locals)))
            return f.locals[i][0]
        i = int(k)
        off = 1 if names and names[0] == 'this' else 0
        if i - 1 + off >= len(names):
            raise LowerError("contract of %s mentions parameter #%d" % (f.cname, i))
        return names[i - 1 + off]
    return re.sub(r'\$(this|ret|L\d+|\d+)', rp, text)


def ghost_name(name, cname):
    return 'g_%s__%s' % (name, cname)


def expand_ghost(text, unit, cname):
    if not text:
        return text
    for ct, name, expr in unit.ghost:
        text = re.sub(r'@%s\b' % name, ghost_name(name, cname), text)
    return text


def ghost_requires(unit, f):
    # (a ghost with expression None is only declared; the contract binds it itself in a requires clause)
    return ''.join('__CPROVER_requires(%s == (%s))\n' % (ghost_name(n, f.cname), subst(e, f)) for ct, n, e in unit.ghost if e is not None)


def ghost_decls(unit, cname):
    return ''.join('%s %s;\n' % (ct, ghost_name(n, cname)) for ct, n, e in unit.ghost)


def ghost_bind(unit, cname):
    """bind text in terms of $A0.. (call arguments)"""
    out = []
    for ct, n, e in unit.ghost:
        if e is None:
            continue
        ee = re.sub(r'\$this', '$A0', e)
        ee = re.sub(r'\$(\d+)', lambda m: '$A%s' % m.group(1), ee)
        out.append('%s = %s;' % (ghost_name(n, cname), ee))
    return ' '.join(out)


def _load_shapes():
    p = os.path.join(os.path.dirname(os.path.abspath(__file__)), '..', 'contracts', 'local_shapes.json')
    try:
        return json.load(open(p))
    except Exception:
        return {}


LOCAL_SHAPES = _load_shapes()
RECORD_SHAPES = None      # set to a dict by tools/record_shapes.py


def find_one(ast, ref):
    q, sig = ref if isinstance(ref, (tuple, list)) else (ref, None)
    if q.startswith('@'):
        if q[1:] not in ast.defs:
            raise LowerError("function with mangled name %s not found in the working tree" % q[1:])
        return ast.defs[q[1:]]
    ds = ast.find_def(q, sig)
    if len(ds) != 1:
        raise LowerError("function %s %s: %d definitions found in the working tree" % (q, sig or '', len(ds)))
    return ds[0]


def build_c(ast, unit, registry):
    """returns (c_text, facts)"""
    opaque = {'CDNS::BaseCborOutputWriter': 'struct BaseCborOutputWriter'}
    opaque.update(unit.opaque)
    L = cdns2c.Lower(ast, opaque=opaque, extern_records=unit.extern_records)
    target_def = find_one(ast, unit.fn)
    tf = L.lower_function(target_def)
    parent_tf = tf
    if unit.lifted_target:
        cands = [lf for lf in L.lifted if re.match(unit.lifted_target + '$', lf.cname)]
        if len(cands) != 1:
            raise LowerError('lifted target %s: %d candidates among %s' % (unit.lifted_target, len(cands), [lf.cname for lf in L.lifted]))
        tf = cands[0]
        # keep only the helpers this instance calls (its callback)
        L.lifted = [lf for lf in L.lifted if lf.cname in tf.calls]
    callee_ghosts = []     # names assigned by bindings before replaced calls
    fns = None
    have = {tf.cname}
    inl_fns = []
    for ref in unit.inline:
        d = find_one(ast, ref)
        f = L.lower_function(d)
        if f.cname in have:
            continue
        have.add(f.cname)
        inl_fns.append((f, '', {}))
    # transitive automatic inlining of constructors / reset helpers
    work = [tf] + [f for f, _, _ in inl_fns] + list(L.lifted)
    while work:
        cur_f = work.pop()
        for cn in list(cur_f.calls):
            if cn in have or not any(re.match(rx + '$', cn) for rx in unit.auto_inline):
                continue
            if cn in cur_f.calldecls:
                d = ast.decl2def.get(cur_f.calldecls[cn]['id'], cur_f.calldecls[cn])
                nf = L.lower_function(d)
            elif cn.endswith('__default') and cn[:-9] in ast.records:
                nf = L.gen_default(cn[:-9])
            else:
                continue
            have.add(nf.cname)
            inl_fns.append((nf, '', {}))
            work.append(nf)
    protos = []
    replaced = []
    binds = {}
    for rid in unit.replace:
        ru = registry[rid]
        try:
            d = find_one(ast, ru.fn)
        except LowerError:
            if getattr(unit, 'replace_optional', False):
                continue        # the callee does not exist in this tree, so it is not called either
            raise
        # lower only for signature/locals naming; body dropped
        f = L.lower_function(d)
        if f.cname == tf.cname:
            continue   # recursion: handled by --enforce-contract-rec
        if f.cname in have:
            raise LowerError("%s both inlined and replaced" % f.cname)
        have.add(f.cname)
        rc_text = ru.contract(ast, L, f) if callable(ru.contract) else ru.contract
        protos.append('%s%s\n%s%s;' % (ghost_decls(ru, f.cname), f.proto, ghost_requires(ru, f),
                                        subst(expand_ghost(rc_text, ru, f.cname), f)))
        replaced.append(f.cname)
        b = (ru.bind + ' ' + ghost_bind(ru, f.cname)).strip()
        if b:
            binds[f.cname] = b
        callee_ghosts += [ghost_name(n, f.cname) for ct, n, e in ru.ghost] + list(ru.bind_assigns)
    binds_list = ', '.join(callee_ghosts)
    ucontract = unit.contract(ast, L, tf) if callable(unit.contract) else unit.contract
    # positional bindings of locals ($Lk) survive renames; they are only meaningful while the function declares the same sequence of
    # local types as when the contract was written (contracts/local_shapes.json): otherwise extraction break, never a verdict
    _lt = (ucontract or '') + ''.join(v for v in ((unit.loops if isinstance(unit.loops, dict) else {}) or {}).values())
    tf.local_alias = {}
    if re.search(r'\$L\d', _lt):
        shape = [[n, t] for n, t in tf.locals]
        rec = LOCAL_SHAPES.get(unit.id)
        if RECORD_SHAPES is not None:
            RECORD_SHAPES[unit.id] = shape
        elif rec is not None:
            used = sorted(set(int(k) for k in re.findall(r'\$L(\d+)', _lt)))
            names_now = [n for n, t in tf.locals]
            by_name = all(k <= len(rec) and names_now.count(rec[k - 1][0]) == 1 and dict(tf.locals)[rec[k - 1][0]] == rec[k - 1][1] for k in used)
            if by_name:
                # every bound local still exists under its recorded name and type: bind by name (locals may have been inserted or reordered)
                tf.local_alias = {k: rec[k - 1][0] for k in used}
            elif [t for n, t in rec] != [t for n, t in shape][:len(rec)]:      # (locals declared after the recorded ones do not disturb positions)
                raise LowerError('%s: the local declarations changed (%s, recorded %s): the bindings $Lk are no longer meaningful' % (tf.cname, shape, rec))
    tcontract = ghost_requires(unit, tf) + subst(expand_ghost(ucontract, unit, tf.cname), tf)
    if callee_ghosts:
        tcontract += '\n__CPROVER_assigns(%s)\n' % binds_list
    uloops = unit.loops(ast, L, tf) if callable(unit.loops) else unit.loops
    # loop contracts keyed by nest path ("2.1"): mapped to the ordinal of the loop with that path; a contract for a loop that does not exist is dropped
    dropped_loops = []
    if any(isinstance(k, str) for k in uloops):
        inv = {v: k for k, v in tf.loop_paths.items()}
        mapped = {}
        for k, v in uloops.items():
            if isinstance(k, str):
                if k in inv:
                    mapped[inv[k]] = v
                else:
                    dropped_loops.append(k)
            else:
                mapped[k] = v
        uloops = mapped
    tloops = {k: subst(expand_ghost(v, unit, tf.cname), tf).replace('@BINDS', binds_list) for k, v in uloops.items()}
    lifted = list(L.lifted)
    ll = unit.lifted_loops(ast, L, tf, lifted) if (unit.lifted_loops and not unit.lifted_target) else {}
    if unit.lifted_stub:
        bodies = unit.lifted_stub(ast, L, tf, lifted)
        for lf in lifted:
            if lf.cname in bodies:
                lf.body = bodies[lf.cname]
                lf.calls = []
                ll.pop(lf.cname, None)
    for lf in lifted:
        have.add(lf.cname)
    fns = [(tf, tcontract, tloops)] + inl_fns + [(lf, '', ll.get(lf.cname, {})) for lf in lifted]
    for ref in unit.stubs:
        if isinstance(ref, str):
            have.add(ref)      # C name of a library/virtual callee defined by the prelude
        else:
            have.add(L.cname(find_one(ast, ref)))
    # callees whose assumed contract is an executable stub generated from the callee's declaration
    gen = []
    allf = [tf] + [f for f, _, _ in inl_fns] + list(L.lifted)
    for f in allf:
        for cn, d in f.calldecls.items():
            if cn in have:
                continue
            for rx, body in unit.gen_stubs:
                if re.match(rx, cn):
                    have.add(cn)
                    proto = L.proto_of_decl(d)
                    pnames = [x.strip().split(' ')[-1].lstrip('*') for x in proto[proto.index('(') + 1:-1].split(',')]
                    b = body
                    for i, pn in enumerate(pnames):
                        b = b.replace('$P%d' % i, pn)
                    gen.append('%s\n{\n%s\n}\n' % (proto, b.replace('$CN', cn)))
                    break
    # every repo callee must be accounted for
    missing = []
    stub_rx = [x for x in unit.stubs if isinstance(x, str) and re.search(r'[\[\]+*^$]', x)]
    for f, _, _ in fns:
        for c in f.calls:
            if f is tf and c in unit.rename_calls:
                continue
            if c not in have and c not in missing and not any(re.match(rx + '$', c) for rx in stub_rx):
                missing.append(c)
    # fallback: an unaccounted callee that is a loop-free repo function (getter, small helper) is inlined as real code, transitively
    # (depth <= 3); anything else stays unresolved (=> undecided, exit 2)
    leaf = []
    for _round in range(3):
        if not missing:
            break
        still = []
        for c in missing:
            nf = None
            for f, _, _ in fns:
                d = f.calldecls.get(c)
                dd = ast.decl2def.get(d['id']) if d else None
                if dd is not None:
                    try:
                        cand = L.lower_function(dd)
                    except LowerError:
                        cand = None
                    if cand is not None and cand.loops == 0 and cand.cname == c:
                        nf = cand
                    break
            if nf is None:
                still.append(c)
                continue
            have.add(c)
            fns.append((nf, '', {}))
            leaf.append(c)
            for c2 in nf.calls:
                if c2 not in have and c2 not in still and c2 not in missing and not any(re.match(rx + '$', c2) for rx in stub_rx):
                    still.append(c2)
        missing = still
    facts = {'target': tf.cname, 'src': tf.src, 'locals': tf.locals, 'loops': tf.loops, 'leaf_inlined': leaf, 'dropped_loop_contracts': dropped_loops,
             'calls': sorted(set(tf.calls)), 'libcalls': sorted(set(tf.libcalls)), 'replaced': replaced,
             'inlined': [f.cname for f, _, _ in fns[1:]], 'unresolved_callees': missing, 'rules': tf.rules}
    for k in uloops:
        if k > tf.loops:
            raise LowerError("loop contract #%d given but %s has %d loops" % (k, tf.cname, tf.loops))
    types = L.emit_types()
    parts = ['/* generated by cdns2c from %s -- do not edit */' % tf.src]
    for d in unit.defines:
        parts.append('#define %s' % d)
    parts.append(unit.pre_c)
    parts.append('#include "%s"' % unit.prelude)
    parts.append(ghost_decls(unit, tf.cname))
    parts.append(types)
    # forward prototypes of all bodies
    for f, _, _ in fns:
        parts.append(f.proto + ';')
    parts.extend(protos)
    parts.append(unit.extra_c)
    parts.extend(gen)
    for f, c, lc in reversed(fns):
        text = insert_binds(cdns2c.render(f, c, lc), binds, f)
        if f is tf and unit.rename_calls:
            head, sep, body = text.partition('{')
            for a, b in unit.rename_calls.items():
                body = re.sub(r'\b%s\(' % re.escape(a), b + '(', body)
            text = head + sep + body
        parts.append(text)
    # harness
    if unit.harness is not None:
        h = subst(unit.harness, tf).replace('$FN', tf.cname)
    else:
        h = default_harness(unit, tf)
    parts.append('void harness(void)\n{\n%s\n}\n' % h)
    return '\n'.join(parts), facts


def insert_binds(text, binds, f):
    """ghost entry bindings before each statement that calls a contract-replaced function (DESIGN 5.0).
    $this/$k in the bind text refer to the *call's* arguments."""
    if not binds:
        return text
    out = []
    for line in text.split('\n'):
        for cn, b in binds.items():
            m = re.search(r'\b%s\(' % re.escape(cn), line)
            if m and not line.lstrip().startswith(('__CPROVER', '/*')) and not re.match(r'^[a-zA-Z_].*\)$', line):
                args = split_args(line[m.end():])
                bt = b
                for i, a in enumerate(args):
                    bt = bt.replace('$A%d' % i, '(%s)' % a)
                ind = line[:len(line) - len(line.lstrip())]
                out.append(ind + '/* ghost binding */ ' + bt)
        out.append(line)
    return '\n'.join(out)


def split_args(s):
    d = 0
    cur = ''
    args = []
    for ch in s:
        if ch == '(':
            d += 1
        elif ch == ')':
            if d == 0:
                args.append(cur.strip())
                return args
            d -= 1
        if ch == ',' and d == 0:
            args.append(cur.strip())
            cur = ''
        else:
            cur += ch
    return args


def default_harness(unit, tf):
    lines = [unit.setup]
    args = unit.args
    if args is None:
        args = []
        for ct, name in tf.params:
            if name == 'this':
                args.append('&obj')
            else:
                lines.append('  %s a_%s;' % (ct, name))
                args.append('a_' + name)
    call = '%s(%s)' % (tf.cname, ', '.join(args))
    if tf.ret != 'void':
        call = '%s r = %s' % (tf.ret, call)
    lines.append('  g_exc = 0;')
    for ct, n, e in unit.ghost:
        if e is None:
            continue      # bound by the contract's own requires clause (the ghost is an unconstrained static)
        ee = e.replace('$this', '(%s)' % args[0])
        ee = re.sub(r'\$(\d+)', lambda m: '(%s)' % args[int(m.group(1))], ee)
        lines.append('  %s = %s;' % (ghost_name(n, tf.cname), ee))
    lines.append('  ' + call + ';')
    lines.append(unit.post)
    lines.append('  if (g_exc == 0) { CANARY("normal return reachable"); }')
    return '\n'.join(lines)


def _limits(mem_gb):
    def f():
        resource.setrlimit(resource.RLIMIT_AS, (mem_gb << 30, mem_gb << 30))
        os.setsid()
    return f


import threading
_SLOTS = int(os.environ.get('VERIF_SLOTS', '14'))
_slot_sem = threading.BoundedSemaphore(_SLOTS)
_slot_lock = threading.Lock()


class _Slots:
    """at most VERIF_SLOTS units of weight in flight: memory-hungry queries (decoder window, big readers) weigh more"""
    def __init__(self, n):
        self.n = max(1, min(n, _SLOTS))

    def __enter__(self):
        with _slot_lock:      # acquire all-or-nothing in order, so two heavy queries cannot starve each other
            for _ in range(self.n):
                _slot_sem.acquire()

    def __exit__(self, *a):
        for _ in range(self.n):
            _slot_sem.release()


def run_cbmc(unit, gb, extra, timeout, mem_gb, cancel=None):
    with _Slots(getattr(unit, 'weight', 1)):
        if cancel is not None and cancel.is_set():     # decided while this query was waiting for its slot
            return (None, '', 'skipped: an earlier obligation of this unit stayed undecided', 0.0)
        r = _run_cbmc(unit, gb, extra, timeout, mem_gb)
    if r[0] != 0 and r[0] != 10 and not r[1].strip().endswith(']') and not r[2].startswith('TIMEOUT'):
        # killed (memory) or truncated output: one retry with the machine to itself
        with _Slots(_SLOTS):
            r = _run_cbmc(unit, gb, extra, timeout, max(mem_gb, 40))
    return r


def _run_cbmc(unit, gb, extra, timeout, mem_gb):
    """run cbmc; on 'too many addressed objects' retry with more object bits (sticky for the unit)"""
    while True:
        rc, so, se, dt = run(cbmc_cmd(unit, gb, extra), timeout, mem_gb)
        if 'too many addressed objects' in so + se and (unit.object_bits or 8) < 14:
            unit.object_bits = (unit.object_bits or 8) + 2
            continue
        return rc, so, se, dt


def run(cmd, timeout, mem_gb=12, cwd=None):
    t0 = time.time()
    try:
        p = subprocess.run(cmd, stdout=subprocess.PIPE, stderr=subprocess.PIPE, timeout=timeout,
                           preexec_fn=_limits(mem_gb), cwd=cwd)
        return p.returncode, p.stdout.decode(errors='replace'), p.stderr.decode(errors='replace'), time.time() - t0
    except subprocess.TimeoutExpired as e:
        return -9, (e.stdout or b'').decode(errors='replace'), 'TIMEOUT after %ds' % timeout, time.time() - t0


BACKENDS = {
    'cadical': ['--sat-solver', 'cadical'],
    'minisat': [],
    'cvc5': ['--cvc5'],
    'z3': ['--z3'],
    'kissat': ['--external-sat-solver', 'kissat'],
}

CHECK_FLAGS = ['--bounds-check', '--pointer-check', '--signed-overflow-check', '--div-by-zero-check',
               '--pointer-overflow-check', '--no-standard-checks', '--no-malloc-may-fail']


class UnitResult:
    def __init__(self, unit):
        self.unit = unit
        self.status = 'undecided'     # ok | failed | undecided
        self.reason = ''
        self.obligations = {}         # id -> {'desc','status','loc'}
        self.failed = []
        self.canaries = {}
        self.wall = 0.0
        self.solver_s = 0.0
        self.facts = {}
        self.cfile = None
        self.gb = None
        self.cmd = ''
        self.variant = ''
        self.trace = {}


def compile_unit(ast, unit, registry, wd, defines=()):
    os.makedirs(wd, exist_ok=True)
    c, facts = build_c(ast, unit, registry)
    cfile = os.path.join(wd, unit.id + '.c')
    with open(cfile, 'w') as f:
        f.write(c)
    a = os.path.join(wd, unit.id + '.a.gb')
    b = os.path.join(wd, unit.id + '.b.gb')
    cmd = ['goto-cc', '--function', 'harness', '-I', CONTRACTS, '-DCANARY_ON'] + ['-D' + d for d in defines] + [cfile, '-o', a]
    rc, so, se, dt = run(cmd, 120)
    if rc != 0:
        raise LowerError("goto-cc failed for unit %s:\n%s" % (unit.id, (so + se)[-3000:]))
    icmd = ['goto-instrument', '--dfcc', 'harness']
    tname = facts['target']
    icmd += ['--enforce-contract-rec' if unit.rec else '--enforce-contract', tname]
    ctext = open(cfile).read()
    for r in facts['replaced']:
        # only functions that are actually called (the prototype carrying the contract is the one other occurrence)
        if len(re.findall(r'\b%s\(' % re.escape(r), ctext)) > 1:
            icmd += ['--replace-call-with-contract', r]
    if unit.loops or unit.lifted_loops:
        icmd += ['--apply-loop-contracts']
    icmd += [a, b]
    rc, so, se, dt = run(icmd, 300)
    if rc != 0:
        raise LowerError("goto-instrument failed for unit %s:\n%s" % (unit.id, (so + se)[-3000:]))
    return cfile, b, facts, ' '.join(icmd)


def cbmc_cmd(unit, gb, extra=()):
    cmd = ['cbmc', gb, '--json-ui'] + (['--arrays-uf-always'] if getattr(unit, 'arrays_uf', True) else []) + ['--object-bits', str(unit.object_bits or 8)] + CHECK_FLAGS
    cmd += BACKENDS[unit.backend]
    for u in unit.unwindset:
        cmd += ['--unwindset', u]
    if unit.unwindset:
        cmd += ['--unwinding-assertions']
    cmd += unit.cbmc_flags
    if isinstance(unit, BmcUnit) and '--unwind' not in extra:
        cmd += ['--unwind', str(unit.unwind), '--unwinding-assertions', '--nondet-static']
    cmd += list(extra)
    return cmd


def parse_json_ui(out):
    try:
        data = json.loads(out)
    except Exception:
        return None, None, 'unparseable cbmc output'
    res = None
    err = []
    status = None
    for item in data:
        if 'result' in item:
            res = item['result']
        if 'cProverStatus' in item:
            status = item['cProverStatus']
        if item.get('messageType') == 'ERROR':
            err.append(item.get('messageText', ''))
    return res, status, '\n'.join(err)


def check_unit(ast, unit, registry, wd, variant=None):
    r = UnitResult(unit)
    t0 = time.time()
    defines = list(unit.defines)
    if variant:
        r.variant = variant[0]
        defines = defines + list(variant[1])
        wd = os.path.join(wd, 'v_' + re.sub(r'\W', '_', variant[0]))
    try:
        saved = unit.defines
        unit.defines = defines
        try:
            cfile, gb, facts, icmd = compile_unit(ast, unit, registry, wd)
        finally:
            unit.defines = saved
    except LowerError as e:
        r.status = 'undecided'
        r.reason = 'extraction/instrumentation: ' + str(e)
        r.wall = time.time() - t0
        return r
    r.cfile, r.gb, r.facts = cfile, gb, facts
    if facts['unresolved_callees']:
        r.reason = 'unresolved callees (neither inlined, replaced nor stubbed): ' + ', '.join(facts['unresolved_callees'])
        r.wall = time.time() - t0
        return r
    cmd = cbmc_cmd(unit, gb)
    r.cmd = icmd + ' && ' + ' '.join(cmd)
    if unit.split:
        rc, so, se, dt = run(cbmc_cmd(unit, gb, ['--show-properties']), 300, unit.mem_gb)
        try:
            props = [p for item in json.loads(so) if 'properties' in item for p in item['properties']]
        except Exception:
            r.reason = 'cannot list properties: ' + (so + se)[-500:]
            r.wall = time.time() - t0
            return r
        results = []
        # group trivially cheap classes together, one query each for contract obligations
        heavy = [p['name'] for p in props if re.search(r'postcondition|precondition|loop_invariant|loop_decreases|loop_step|assertion', p['name'])]
        light = [p['name'] for p in props if p['name'] not in heavy]
        # the generated safety checks first (cheap, and where an out-of-bounds access shows), then one query per contract obligation
        groups = []
        for i in range(0, len(light), 60):
            groups.append(light[i:i + 60])
        groups += [[h] for h in heavy]
        gave_up = threading.Event()
        def one(g):
            if gave_up.is_set():
                return (None, '', 'skipped: an earlier obligation of this unit stayed undecided', 0.0)
            ex = []
            for pn in g:
                ex += ['--property', pn]
            out = run_cbmc(unit, gb, ex, unit.timeout, unit.mem_gb, cancel=gave_up)
            if parse_json_ui(out[1])[0] is None:
                gave_up.set()        # timeout / out of memory: do not spend the same time on every remaining obligation of the unit
            return out
        with ThreadPoolExecutor(max_workers=int(os.environ.get('VERIF_JOBS_INNER', '8'))) as ex:
            outs = list(ex.map(one, groups))
        allres = []
        open_groups = []
        for g, (rc, so, se, dt) in zip(groups, outs):
            r.solver_s += dt
            res, status, err = parse_json_ui(so)
            if res is None:
                open_groups.append((g, (se or err or 'no result')[:300]))
                continue
            allres.extend([x for x in res if x['property'] in g])
        if open_groups and not any(x['status'] != 'SUCCESS' and not x.get('description', '').startswith('CANARY') for x in allres):
            g, why = open_groups[0]
            r.reason = 'undecided obligations %s (+%d groups): %s' % (g[:3], len(open_groups) - 1, why)
            r.wall = time.time() - t0
            return r
        # (a refuted obligation is a definite answer even if other obligations of the unit stayed undecided)
        r.undecided_groups = [g for g, _ in open_groups]
        res = allres
    else:
        rc, so, se, dt = run_cbmc(unit, gb, [], unit.timeout, unit.mem_gb)
        r.solver_s = dt
        res, status, err = parse_json_ui(so)
        if res is None:
            r.reason = 'cbmc gave no result (rc=%s): %s' % (rc, (se or err or so[-300:])[:600])
            r.wall = time.time() - t0
            return r
    n_loop_base = n_loop_step = 0
    for x in res:
        pid = x['property']
        desc = x.get('description', '')
        st = x['status']
        if desc.startswith('CANARY'):
            r.canaries[pid] = (desc, st)
            continue
        if 'loop_invariant_base' in pid:
            n_loop_base += 1
        if 'loop_invariant_step' in pid or 'loop_step' in pid:
            n_loop_step += 1
        r.obligations[pid] = {'desc': desc, 'status': st}
        if st != 'SUCCESS':
            r.failed.append(pid)
    # vacuity guards
    if not r.obligations:
        r.reason = 'no obligations generated'
    elif unit.loops and (n_loop_base == 0 or n_loop_step == 0):
        r.reason = 'loop contract silently dropped (no loop_invariant_base/step obligations)'
    elif not r.canaries:
        r.reason = 'no canary in unit'
    elif r.failed:
        r.status = 'failed'      # a refuted obligation comes with an execution: not vacuous, whatever the canaries say
    elif any(st == 'SUCCESS' for _, st in r.canaries.values()):
        dead = [d for d, st in r.canaries.values() if st == 'SUCCESS']
        live = [d for d, st in r.canaries.values() if st != 'SUCCESS']
        if live and dead == ['CANARY normal return reachable']:
            # the preconditions are satisfiable (another exit is reachable) but the function can never return normally: that is a
            # violation of every 'accepts ...' property, reported as a failed obligation of its own
            oid = tname_of(r) + '.reachability.normal_return'
            r.obligations[oid] = {'desc': 'the function returns normally for some input satisfying its precondition', 'status': 'FAILURE'}
            r.failed.append(oid)
            r.status = 'failed'
        else:
            r.reason = 'vacuous: canary unreachable: ' + ', '.join(dead)
    else:
        r.status = 'failed' if r.failed else 'ok'
    r.wall = time.time() - t0
    return r


def tname_of(r):
    return r.facts.get('target', 'unit')


def get_trace(unit, gb, pid, timeout=600):
    """re-run one failed obligation with --trace; return list of (lhs, value) assignments in harness scope"""
    rc, so, se, dt = run_cbmc(unit, gb, ['--property', pid, '--trace'], timeout, unit.mem_gb)
    vals = []
    try:
        data = json.loads(so)
    except Exception:
        return vals, (so + se)[-2000:]
    text = []
    for item in data:
        for x in item.get('result', []):
            if x.get('property') == pid and 'trace' in x:
                for stp in x['trace']:
                    if stp.get('stepType') == 'assignment' and not stp.get('hidden'):
                        lhs = stp.get('lhs')
                        v = stp.get('value', {})
                        fnn = stp.get('sourceLocation', {}).get('function', '')
                        def flat(prefix, vv):
                            if 'members' in vv:
                                for mm in vv['members']:
                                    flat(prefix + '.' + mm.get('name', '?'), mm.get('value', {}))
                            elif 'elements' in vv:
                                pass
                            else:
                                vals.append((fnn, prefix, vv.get('data', vv.get('name'))))
                        flat(lhs, v)
    return vals, ''
