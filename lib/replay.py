"""Replay of CBMC counterexamples against the real library (native build of /repo's working tree)."""
import json, os, re, subprocess, hashlib, glob, tempfile, shutil
import driver, astload

FAMILIES = {}   # unit-id prefix -> (replay source file, function turning harness inputs into argv)


def parse_int(v):
    if v is None:
        return None
    if isinstance(v, (int,)):
        return v
    s = str(v).strip()
    if s in ('TRUE', 'true'):
        return 1
    if s in ('FALSE', 'false'):
        return 0
    m = re.match(r'^(-?\d+)(ul|l|u|ull|ll)?$', s, re.I)
    if m:
        return int(m.group(1))
    m = re.match(r"^'(.)'$", s)
    if m:
        return ord(m.group(1))
    return None


def harness_inputs(trace):
    """last value assigned to each harness-scope variable / ghost global"""
    vals = {}
    for fn, lhs, val in trace:
        if lhs is None:
            continue
        if fn == 'harness' or lhs.startswith('g_'):
            iv = parse_int(val)
            if iv is not None and not lhs.startswith('__'):
                if fn == 'harness' or lhs not in vals:
                    vals[lhs] = iv
    return vals


def native_build(name, src):
    """build replay program `name` against the working tree's sources; cached by source hash"""
    repo = astload.REPO
    cache = astload.CACHE
    os.makedirs(cache, exist_ok=True)
    key = astload.src_hash(repo) + '-' + hashlib.sha256(open(src, 'rb').read()).hexdigest()[:12]
    exe = os.path.join(cache, 'replay-%s-%s' % (name, key))
    if os.path.exists(exe):
        return exe, ''
    for old in glob.glob(os.path.join(cache, 'replay-%s-*' % name)):
        try:
            os.unlink(old)
        except OSError:
            pass
    lib = os.path.join(cache, 'libobjs-' + astload.src_hash(repo))
    if not os.path.isdir(lib):
        for old in glob.glob(os.path.join(cache, 'libobjs-*')):
            shutil.rmtree(old, ignore_errors=True)
        tmp = lib + '.tmp'
        shutil.rmtree(tmp, ignore_errors=True)
        os.makedirs(tmp)
        srcs = sorted(glob.glob(os.path.join(repo, 'src', '*.cpp')))
        procs = []
        for s in srcs:
            o = os.path.join(tmp, os.path.basename(s) + '.o')
            procs.append((s, subprocess.Popen(['g++', '-std=c++14', '-msse4', '-O1', '-g', '-fPIC', '-I', os.path.join(repo, 'src'), '-c', s, '-o', o],
                                              stdout=subprocess.PIPE, stderr=subprocess.STDOUT)))
        for s, p in procs:
            out, _ = p.communicate()
            if p.returncode != 0:
                shutil.rmtree(tmp, ignore_errors=True)
                return None, 'native build of %s failed: %s' % (s, out.decode()[-800:])
        os.rename(tmp, lib)
    objs = sorted(glob.glob(os.path.join(lib, '*.o')))
    r = subprocess.run(['g++', '-std=c++14', '-msse4', '-O1', '-g', '-I', os.path.join(repo, 'src'), src] + objs +
                       ['-lz', '-llzma', '-o', exe], stdout=subprocess.PIPE, stderr=subprocess.STDOUT)
    if r.returncode != 0:
        return None, 'native replay build failed: ' + r.stdout.decode()[-1500:]
    return exe, ''


def family_of(unit_id):
    for pre, fam in FAMILIES.items():
        if unit_id.startswith(pre):
            return fam
    return None


def run_native(verif, fam, unit_id, inputs):
    src = os.path.join(verif, 'replay', fam['src'])
    exe, err = native_build(fam['name'], src)
    if exe is None:
        return {'ran': False, 'error': err}
    argv = fam['argv'](unit_id, inputs)
    if argv is None:
        return {'ran': False, 'error': 'counterexample does not map to a public-API input'}
    try:
        p = subprocess.run([exe] + [str(x) for x in argv], stdout=subprocess.PIPE, stderr=subprocess.PIPE, timeout=120)
    except subprocess.TimeoutExpired:
        return {'ran': True, 'argv': argv, 'misbehaves': True, 'detail': 'native replay did not terminate in 120 s'}
    out = p.stdout.decode(errors='replace')
    res = {'ran': True, 'argv': [str(x) for x in argv], 'exit': p.returncode, 'stdout': out[-2000:], 'stderr': p.stderr.decode(errors='replace')[-1000:]}
    # replay programs print "REPLAY: MISMATCH ..." / "REPLAY: OK ..." and exit 1 / 0; crashes count as misbehaviour
    res['misbehaves'] = (p.returncode != 0)
    return res


def make_replay(verif, pid, r, oid):
    u = r.unit
    uid = u.id + (('@' + r.variant) if r.variant else '')
    trace, err = driver.get_trace(u, r.gb, oid, timeout=max(300, u.timeout))
    inputs = harness_inputs(trace)
    fam = family_of(u.id)
    native = None
    if fam and inputs:
        native = run_native(verif, fam, u.id, inputs)
    confirmed = bool(native and native.get('ran') and native.get('misbehaves'))
    fn = re.sub(r'[^A-Za-z0-9_.@-]', '_', '%s-%s-%s.json' % (pid, uid, oid))
    path = os.path.join(verif, 'replays', fn)
    doc = {
        'property': pid, 'unit': uid, 'function': r.facts.get('target'), 'source': r.facts.get('src'),
        'failed_obligation': oid, 'clause': r.obligations[oid]['desc'],
        'counterexample_inputs': inputs,
        'native_replay': native,
        'confirmed_on_real_code': confirmed,
        'verifier_cmd': r.cmd + ' --property ' + oid + ' --trace',
        'verifier_output': err or ('trace with %d assignments; harness-scope values above' % len(trace)),
        'replay_cmd': '/verif/check %s --replay %s' % (pid, path),
    }
    if not confirmed:
        doc['no_failing_input_found'] = ('no native replay family for this unit' if not fam else
                                         (native or {}).get('error') or 'the real code did not misbehave on the mapped input '
                                         '(the obligation is about a frame/ghost/intermediate state, or the input does not map to the public API)')
    with open(path, 'w') as f:
        json.dump(doc, f, indent=1)
    summ = ''
    if native and native.get('ran'):
        summ = 'native replay: ' + (native.get('stdout', '').strip().split('\n')[-1] if native.get('stdout') else 'exit %s' % native.get('exit'))
    return {'path': path, 'confirmed': confirmed, 'summary': summ}


def replay_file(path):
    doc = json.load(open(path))
    verif = os.environ.get('VERIF_DIR', '/verif')
    fam = family_of(doc['unit'].split('@')[0])
    print("replay of %s: obligation %s (%s)" % (doc['property'], doc['failed_obligation'], doc['clause']))
    if not fam:
        print("no native replay family; verifier command:\n  " + doc['verifier_cmd'])
        return 0
    nat = run_native(verif, fam, doc['unit'].split('@')[0], doc['counterexample_inputs'])
    print(json.dumps(nat, indent=1))
    if nat.get('ran') and nat.get('misbehaves'):
        print("VIOLATION property=%s replay=%s" % (doc['property'], path))
        return 1
    return 0


# ------------------------------------------------------------------ families
def enc_argv(unit_id, inp):
    op = unit_id[len('enc.'):]
    fill = inp.get('fill')
    if fill is None:
        return None
    if op == 'write_int':
        return ['write_int', fill, inp.get('a_value', 0), inp.get('a_major', 0)]
    if op in ('write_string', 'write_bytestring', 'write_textstring'):
        return [op, fill, inp.get('a_size', 0), inp.get('isnull', 0), inp.get('g_W', 0)]
    if op in ('write_indef_array_start', 'write_indef_map_start', 'write_break', 'flush_buffer'):
        return [op, fill]
    m = re.match(r'(write_array_start|write_map_start)$', op)
    if m:
        return [op, fill, inp.get('a_size', 0)]
    m = re.match(r'write\.(\w+)$', op)
    if m:
        v = inp.get('a_value', 0)
        return ['write_' + m.group(1), fill, v]
    return None


FAMILIES['enc.'] = {'name': 'enc', 'src': 'replay_enc.cpp', 'argv': enc_argv}


def ts_argv(unit_id, inp):
    op = unit_id[len('ts.'):]
    g = lambda k: inp.get(k, 0)
    if op == 'add_time_offset':
        return [op, inp.get('obj.m_secs', g('g_s0')), inp.get('obj.m_ticks', g('g_t0')), g('a_offset'), g('a_tps')]
    if op == 'get_time_offset':
        return [op, g('obj.m_secs'), g('obj.m_ticks'), g('ref.m_secs'), g('a_tps'), g('ref.m_ticks')]
    if op in ('lt', 'le'):
        return [op, g('obj.m_secs'), g('obj.m_ticks'), g('rhs.m_secs'), 1, g('rhs.m_ticks')]
    return None


FAMILIES['ts.'] = {'name': 'ts', 'src': 'replay_ts.cpp', 'argv': ts_argv}
