"""Replay of CBMC counterexamples against the real library (native build of /repo's working tree)."""
import json, os, re, subprocess, hashlib, glob, tempfile, shutil
import driver, astload

FAMILIES = {}   # unit-id prefix -> (replay source file, function turning harness inputs into argv)


def parse_int(v):
    if v is None:
        return None
    if isinstance(v, (int,)):
        return v
    s = str(v).strip()
    if s in ('TRUE', 'true'):
        return 1
    if s in ('FALSE', 'false'):
        return 0
    m = re.match(r'^(-?\d+)(ul|l|u|ull|ll)?$', s, re.I)
    if m:
        return int(m.group(1))
    m = re.match(r"^'(.)'$", s)
    if m:
        return ord(m.group(1))
    return None


def harness_inputs(trace):
    """last value assigned to each harness-scope variable / ghost global"""
    vals = {}
    for fn, lhs, val in trace:
        if lhs is None:
            continue
        if fn == 'harness' or lhs.startswith('g_') or lhs.startswith('G2.'):
            iv = parse_int(val)
            if iv is not None and not lhs.startswith('__'):
                if fn == 'harness' or lhs not in vals or lhs.startswith('G2.'):
                    vals[lhs] = iv
    return vals


def native_build(name, src):
    """build replay program `name` against the working tree's sources; cached by source hash"""
    repo = astload.REPO
    cache = astload.CACHE
    os.makedirs(cache, exist_ok=True)
    key = astload.src_hash(repo) + '-' + hashlib.sha256(open(src, 'rb').read()).hexdigest()[:12]
    exe = os.path.join(cache, 'replay-%s-%s' % (name, key))
    if os.path.exists(exe):
        return exe, ''
    for old in glob.glob(os.path.join(cache, 'replay-%s-*' % name)):
        try:
            os.unlink(old)
        except OSError:
            pass
    lib = os.path.join(cache, 'libobjs-' + astload.src_hash(repo))
    if not os.path.isdir(lib):
        for old in glob.glob(os.path.join(cache, 'libobjs-*')):
            shutil.rmtree(old, ignore_errors=True)
        tmp = lib + '.tmp'
        shutil.rmtree(tmp, ignore_errors=True)
        os.makedirs(tmp)
        srcs = sorted(glob.glob(os.path.join(repo, 'src', '*.cpp')))
        procs = []
        for s in srcs:
            o = os.path.join(tmp, os.path.basename(s) + '.o')
            procs.append((s, subprocess.Popen(['g++', '-std=c++14', '-msse4', '-O1', '-g', '-fPIC', '-I', os.path.join(repo, 'src'), '-c', s, '-o', o],
                                              stdout=subprocess.PIPE, stderr=subprocess.STDOUT)))
        for s, p in procs:
            out, _ = p.communicate()
            if p.returncode != 0:
                shutil.rmtree(tmp, ignore_errors=True)
                return None, 'native build of %s failed: %s' % (s, out.decode()[-800:])
        os.rename(tmp, lib)
    objs = sorted(glob.glob(os.path.join(lib, '*.o')))
    r = subprocess.run(['g++', '-std=c++14', '-msse4', '-O1', '-g', '-I', os.path.join(repo, 'src'), '-I', os.path.dirname(src), src] + objs +
                       ['-lz', '-llzma', '-o', exe], stdout=subprocess.PIPE, stderr=subprocess.STDOUT)
    if r.returncode != 0:
        return None, 'native replay build failed: ' + r.stdout.decode()[-1500:]
    return exe, ''


def family_of(unit_id):
    if re.match(r'btr\.\w+\.copy_assign$', unit_id):
        return {'name': 'c19', 'src': 'replay_c19.cpp', 'argv': lambda u, i: []}
    best = None
    for pre, fam in FAMILIES.items():       # the most specific (longest) prefix wins
        if unit_id.startswith(pre) and (best is None or len(pre) > len(best[0])):
            best = (pre, fam)
    return best[1] if best else None


def run_native(verif, fam, unit_id, inputs):
    if 'custom' in fam:
        return fam['custom'](verif, unit_id, inputs)
    src = os.path.join(verif, 'replay', fam['src'])
    exe, err = native_build(fam['name'], src)
    if exe is None:
        return {'ran': False, 'error': err}
    argv = fam['argv'](unit_id, inputs)
    if argv is None:
        return {'ran': False, 'error': 'counterexample does not map to a public-API input'}
    try:
        p = subprocess.run([exe] + [str(x) for x in argv], stdout=subprocess.PIPE, stderr=subprocess.PIPE, timeout=120)
    except subprocess.TimeoutExpired:
        return {'ran': True, 'argv': argv, 'misbehaves': True, 'detail': 'native replay did not terminate in 120 s'}
    out = p.stdout.decode(errors='replace')
    res = {'ran': True, 'argv': [str(x) for x in argv], 'exit': p.returncode, 'stdout': out[-2000:], 'stderr': p.stderr.decode(errors='replace')[-1000:]}
    # replay programs print "REPLAY: MISMATCH ..." / "REPLAY: OK ..." and exit 1 / 0; crashes count as misbehaviour
    res['misbehaves'] = (p.returncode != 0)
    return res


def make_replay(verif, pid, r, oid):
    u = r.unit
    uid = u.id + (('@' + r.variant) if r.variant else '')
    if oid.endswith('.reachability.normal_return'):
        trace, err = [], 'no execution of the unit reaches the normal exit (canary assertion proved unreachable)'
    elif isinstance(u, driver.ScanUnit):
        trace, err = [], 'AST scan: ' + r.obligations[oid]['desc']
    else:
        trace, err = driver.get_trace(u, r.gb, oid, timeout=max(300, u.timeout))
    inputs = harness_inputs(trace)
    fam = family_of(u.id)
    native = None
    if fam and (inputs or oid.endswith('.reachability.normal_return') or fam.get('src') in ('replay_bt.cpp', 'replay_fp.cpp', 'replay_ili.cpp', 'replay_nest.cpp', 'replay_c19.cpp', 'replay_dname.cpp', 'replay_ip.cpp', 'replay_c16.cpp', 'replay_c16f.cpp', 'replay_gz.cpp', 'replay_c13x.cpp', 'replay_c16r.cpp')):
        native = run_native(verif, fam, u.id, inputs)
    confirmed = bool(native and native.get('ran') and native.get('misbehaves'))
    fn = re.sub(r'[^A-Za-z0-9_.@-]', '_', '%s-%s-%s.json' % (pid, uid, oid))
    rdir = os.environ.get('VERIF_REPLAYS', os.path.join(verif, 'replays'))
    os.makedirs(rdir, exist_ok=True)
    path = os.path.join(rdir, fn)
    doc = {
        'property': pid, 'unit': uid, 'function': r.facts.get('target'), 'source': r.facts.get('src'),
        'failed_obligation': oid, 'clause': r.obligations[oid]['desc'],
        'counterexample_inputs': inputs,
        'native_replay': native,
        'confirmed_on_real_code': confirmed,
        'verifier_cmd': r.cmd + ' --property ' + oid + ' --trace',
        'verifier_output': err or ('trace with %d assignments; harness-scope values above' % len(trace)),
        'replay_cmd': '/verif/check %s --replay %s' % (pid, path),
    }
    if not confirmed:
        doc['no_failing_input_found'] = ('no native replay family for this unit' if not fam else
                                         (native or {}).get('error') or 'the real code did not misbehave on the mapped input '
                                         '(the obligation is about a frame/ghost/intermediate state, or the input does not map to the public API)')
    with open(path, 'w') as f:
        json.dump(doc, f, indent=1)
    summ = ''
    if native and native.get('ran'):
        summ = 'native replay: ' + (native.get('stdout', '').strip().split('\n')[-1] if native.get('stdout') else 'exit %s' % native.get('exit'))
    return {'path': path, 'confirmed': confirmed, 'summary': summ}


def replay_file(path):
    doc = json.load(open(path))
    verif = os.environ.get('VERIF_DIR', '/verif')
    fam = family_of(doc['unit'].split('@')[0])
    print("replay of %s: obligation %s (%s)" % (doc['property'], doc['failed_obligation'], doc['clause']))
    if not fam:
        print("no native replay family; verifier command:\n  " + doc['verifier_cmd'])
        return 0
    nat = run_native(verif, fam, doc['unit'].split('@')[0], doc['counterexample_inputs'])
    print(json.dumps(nat, indent=1))
    if nat.get('ran') and nat.get('misbehaves'):
        print("VIOLATION property=%s replay=%s" % (doc['property'], path))
        return 1
    return 0


# ------------------------------------------------------------------ families
def enc_argv(unit_id, inp):
    op = unit_id[len('enc.'):]
    fill = inp.get('fill')
    if fill is None:
        return None
    if op == 'write_int':
        return ['write_int', fill, inp.get('a_value', 0), inp.get('a_major', 0)]
    if op in ('write_string', 'write_bytestring', 'write_textstring'):
        return [op, fill, inp.get('a_size', 0), inp.get('isnull', 0), inp.get('g_W', 0)]
    if op in ('write_indef_array_start', 'write_indef_map_start', 'write_break', 'flush_buffer'):
        return [op, fill]
    m = re.match(r'(write_array_start|write_map_start)$', op)
    if m:
        return [op, fill, inp.get('a_size', 0)]
    m = re.match(r'write\.(\w+)$', op)
    if m:
        v = inp.get('a_value', 0)
        return ['write_' + m.group(1), fill, v]
    return None


FAMILIES['enc.'] = {'name': 'enc', 'src': 'replay_enc.cpp', 'argv': enc_argv}


def ts_argv(unit_id, inp):
    op = unit_id[len('ts.'):]
    g = lambda k: inp.get(k, 0)
    if op == 'add_time_offset':
        return [op, inp.get('obj.m_secs', g('g_s0')), inp.get('obj.m_ticks', g('g_t0')), g('a_offset'), g('a_tps')]
    if op == 'get_time_offset':
        return [op, g('obj.m_secs'), g('obj.m_ticks'), g('ref.m_secs'), g('a_tps'), g('ref.m_ticks')]
    if op in ('lt', 'le'):
        return [op, g('obj.m_secs'), g('obj.m_ticks'), g('rhs.m_secs'), 1, g('rhs.m_ticks')]
    return None


FAMILIES['ts.'] = {'name': 'ts', 'src': 'replay_ts.cpp', 'argv': ts_argv}


def dec_argv(unit_id, inp):
    op = unit_id[len('dec.'):].split('.')[0]
    g = lambda k, d=0: inp.get(k, d)
    po, eo = g('po'), g('eo')
    delivered = g('g_delivered')
    P0 = None
    A0 = None
    for k, v in inp.items():
        if k.startswith('g_P0__') and k.endswith(op):
            P0 = v
        if k.startswith('g_A0__') and k.endswith(op):
            A0 = v
    if P0 is None:
        P0 = g('g_win_start') + po
    if A0 is None:
        A0 = (eo - po) + g('in.remaining')
    # a stream that is not good and not at eof with an empty window: replayed as the never-opened file stream
    unopened = 1 if ((g('in.failbit') or g('in.badbit')) and not g('in.eofbit') and eo == po) else 0
    if unopened:
        P0 = 0
    rel = lambda w: (w - P0) if w >= P0 else -1
    extra = g('a_il')
    return [op, P0, A0, rel(g('g_Wh')), g('g_wh'), rel(g('g_Wd')), g('g_wb'), unopened, extra]


FAMILIES['dec.'] = {'name': 'dec', 'src': 'replay_dec.cpp', 'argv': dec_argv}


# ------------------------------------------------------------------ item-layer writers: generated native replay
WRITER_MAIN = r'''
#include <cstdio>
#include <cstdlib>
#include <string>
#include <vector>
#include <unistd.h>
#include "cdns.h"
#include "cbor_ref.h"
using namespace CDNS;
template<typename O, typename V> static void setopt(boost::optional<O>& o, V v) { o = static_cast<O>(v); }
template<typename O, typename V> static void setval(O& o, V v) { o = static_cast<O>(v); }
static std::string mkstr(unsigned long long len, unsigned long long id) { if (len > 300) len = 300; return std::string((size_t)len, (char)('a' + id %% 26)); }
int main() {
    %(decl)s x;
%(assign)s
    char tmpl[] = "/tmp/cdns-replay-XXXXXX"; int fd = mkstemp(tmpl); if (fd < 0) return 2; unlink(tmpl); int fd2 = dup(fd);
    size_t ret = 0;
    { CdnsEncoder enc(fd, CborOutputCompression::NO_COMPRESSION); %(call)s }
    Bytes got; lseek(fd2, 0, SEEK_SET); unsigned char buf[65536]; ssize_t k; while ((k = read(fd2, buf, sizeof buf)) > 0) got.insert(got.end(), buf, buf + k);
    size_t end = 0; int st = got.empty() ? RF_END : ref_skip(got, 0, end);
    bool one_item = st == RF_OK && end == got.size();
    bool count_ok = ret == got.size();
    // top-level map keys
    std::string keys; bool keys_ok = true;
    long long want[] = { %(want)s };
    size_t nwant = sizeof(want) / sizeof(want[0]) - 1;
    if (one_item && (got[0] & 0xe0) == 0xa0) {
        unsigned mt, ai; unsigned long long arg; size_t p; int s2; ref_head(got, 0, mt, ai, arg, p, s2);
        std::vector<long long> seen;
        for (unsigned long long i = 0; i < arg; i++) { unsigned m2, a2; unsigned long long g2; size_t n2; ref_head(got, p, m2, a2, g2, n2, s2);
            seen.push_back(m2 == 0x20 ? -1 - (long long)g2 : (long long)g2); size_t e; ref_skip(got, n2, e); p = e; }
        for (size_t i = 0; i < seen.size(); i++) keys += std::to_string(seen[i]) + " ";
        if (%(checkkeys)d) { keys_ok = seen.size() == nwant; for (size_t i = 0; keys_ok && i < nwant; i++) { bool f = false; for (auto s : seen) f |= s == want[i]; keys_ok = f; } }
    }
    bool ok = %(expect_nothing)s ? (got.empty() && ret == 0) : (one_item && count_ok && keys_ok);
    printf("REPLAY: %%s %(decl)s::write returned=%%zu output_len=%%zu one_wellformed_item=%%d keys=[%%s] first_bytes=", ok ? "OK" : "MISMATCH", ret, got.size(), (int)one_item, keys.c_str());
    for (size_t i = 0; i < got.size() && i < 16; i++) printf("%%02x", got[i]);
    printf("\n");
    return ok ? 0 : 1;
}
'''


def writer_replay(verif, unit_id, inp):
    """build + run a native program that constructs the counterexample's structure and serialises it with the real library"""
    sys_path = os.path.join(verif, 'spec')
    import sys
    if sys_path not in sys.path:
        sys.path.insert(0, sys_path)
    import rfc8618_maps as RFC
    rec = unit_id.split('.', 1)[1]
    if rec not in RFC.MAPS:
        return {'ran': False, 'error': 'no native replay generator for ' + rec}
    g = lambda k, d=0: inp.get(k, d)
    lines = []
    want = []
    anyp = False
    for fname, key, kind, mand in RFC.MAPS[rec]:
        base = 'obj.' + fname
        is_opt = (base + '.has') in inp or not mand and (base + '.val') in inp
        has = g(base + '.has', 1 if mand else 0) if not kind.startswith('array:') or (base + '.has') in inp else 1
        vb = base + ('.val' if (base + '.has') in inp else '')
        if kind.startswith('array:'):
            n = min(g(vb + '.n', 0), 12)
            ek = kind[6:]
            if n == 0 and not mand:
                continue
            for i in range(n):
                if ek == 'uint':
                    lines.append('    x.%s.push_back(static_cast<decltype(x.%s)::value_type>(%dULL));' % (fname, fname, g(vb + '.wv', 0) & 0xffff))
                elif ek in ('tstr', 'bstr'):
                    lines.append('    x.%s.push_back(mkstr(%dULL, %dULL));' % (fname, g(vb + '.wv.len', 1), g(vb + '.wv.id', 0)))
                else:
                    lines.append('    x.%s.emplace_back();' % fname)
            want.append(key)
            anyp = True
            continue
        if not has:
            continue
        anyp = True
        want.append(key)
        setter = 'setopt' if (base + '.has') in inp else 'setval'
        if kind in ('uint', 'int', 'bool'):
            v = g(vb, 0)
            lit = ('%dULL' % v) if v >= 0 else ('(%dLL)' % v)
            lines.append('    %s(x.%s, %s);' % (setter, fname, lit))
        elif kind in ('tstr', 'bstr'):
            lines.append('    x.%s = mkstr(%dULL, %dULL);' % (fname, g(vb + '.len', 1), g(vb + '.id', 0)))
        elif kind in ('offset', 'time'):
            lines.append('    x.%s = Timestamp(%dULL, %dULL);' % (fname, g(vb + '.m_secs', 0), g(vb + '.m_ticks', 0)))
        elif kind.startswith('map:'):
            sub = kind[4:]
            if (base + '.has') in inp:
                lines.append('    x.%s = %s();' % (fname, sub))
    timed = rec in ('QueryResponse', 'MalformedMessage')
    call = 'Timestamp earliest(0, 0); uint64_t tps = 1000000; ret = x.write(enc, earliest, tps);' if timed else 'ret = x.write(enc);'
    expect_nothing = 'true' if (timed and not anyp) else 'false'
    src = WRITER_MAIN % {'decl': rec, 'assign': '\n'.join(lines), 'call': call, 'want': ', '.join(str(k) for k in want) + (', ' if want else '') + '0',
                         'checkkeys': 1, 'expect_nothing': expect_nothing}
    cache = astload.CACHE
    os.makedirs(cache, exist_ok=True)
    path = os.path.join(cache, 'replay_w_%s.cpp' % rec)
    open(path, 'w').write(src)
    shutil.copy(os.path.join(verif, 'replay', 'cbor_ref.h'), os.path.join(cache, 'cbor_ref.h'))
    exe, err = native_build('w_' + rec, path)
    if exe is None:
        return {'ran': False, 'error': err}
    try:
        p = subprocess.run([exe], stdout=subprocess.PIPE, stderr=subprocess.PIPE, timeout=60)
    except subprocess.TimeoutExpired:
        return {'ran': True, 'misbehaves': True, 'stdout': 'timeout'}
    return {'ran': True, 'argv': ['generated program ' + path], 'exit': p.returncode, 'stdout': p.stdout.decode(errors='replace')[-1500:],
            'stderr': p.stderr.decode(errors='replace')[-500:], 'misbehaves': p.returncode != 0, 'source': src}


FAMILIES['w.'] = {'name': 'w', 'custom': writer_replay}


FAMILIES['bt.eqhash.MalformedMessageData'] = {'name': 'bt', 'src': 'replay_bt.cpp', 'argv': lambda u, i: []}

FAMILIES['txt.get_readable_dname'] = {'name': 'dname', 'src': 'replay_dname.cpp', 'argv': lambda u, i: []}
FAMILIES['txt.get_readable_ip_address'] = {'name': 'ip', 'src': 'replay_ip.cpp', 'argv': lambda u, i: []}
FAMILIES['c03.recursion'] = {'name': 'nest', 'src': 'replay_nest.cpp', 'argv': lambda u, i: [200000]}

FAMILIES['r.IndexListItem'] = {'name': 'ili', 'src': 'replay_ili.cpp', 'argv': lambda u, i: []}

FAMILIES['r.FilePreamble'] = {'name': 'fp', 'src': 'replay_fp.cpp', 'argv': lambda u, i: []}

FAMILIES['out.gzip.write_gzip'] = {'name': 'gz', 'src': 'replay_gz.cpp', 'argv': lambda u, i: [max(i.get('a_in', 0), 32 << 20)]}

FAMILIES['out.file.rotate_output.c13'] = {'name': 'c13x', 'src': 'replay_c13x.cpp', 'argv': lambda u, i: ['name2fd']}
FAMILIES['out.fd.rotate_output.c13'] = {'name': 'c13x', 'src': 'replay_c13x.cpp', 'argv': lambda u, i: ['fd2name']}
FAMILIES['enc.rotate_output.fd.recover'] = {'name': 'c16r', 'src': 'replay_c16r.cpp', 'argv': lambda u, i: []}
FAMILIES['enc.rotate_output.string.recover'] = {'name': 'c16r', 'src': 'replay_c16r.cpp', 'argv': lambda u, i: []}
FAMILIES['out.file.close.c15'] = {'name': 'c16f', 'src': 'replay_c16f.cpp', 'argv': lambda u, i: []}
FAMILIES['out.file.rotate_output.c16'] = {'name': 'c16f', 'src': 'replay_c16f.cpp', 'argv': lambda u, i: []}
FAMILIES['out.gzip.rotate_output.c16'] = {'name': 'c16', 'src': 'replay_c16.cpp', 'argv': lambda u, i: []}


def dec2_argv(unit_id, inp):
    """structure-level counterexample -> bytes: the first head of the activation, a stop code two bytes later if the head opens an indefinite container"""
    op = unit_id[len('dec2.'):].split('.')[0]
    h0 = inp.get('G2.h0', inp.get('g_h0', 0)) & 0xff
    if op == 'read_string':
        t = inp.get('a_ct', 0x40) & 0xe0
        # a well-formed chunked string of the requested type: two one-byte chunks and the stop code
        return ['read_bytestring' if t == 0x40 else 'read_textstring', 0, 8, -1, 0, -1, 0, 0, 0, '%02x%02x61%02x62ff' % (t | 31, t | 1, t | 1)]
    if (h0 & 0x1f) == 31:
        return [op, 0, 8, 0, h0, 3 if (h0 & 0xe0) == 0xa0 else 2, 0xff, 0, 0]
    return [op, 0, 8, 0, h0, -1, 0, 0, 0]


FAMILIES['dec2.'] = {'name': 'dec', 'src': 'replay_dec.cpp', 'argv': dec2_argv}
