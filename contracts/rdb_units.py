"""CdnsBlockRead::read (C01 step "offsets are resolved against the block's earliest time", C17, C08, C03): the block map reader
on the ghost token stream of item_dec.h, its three read_array call sites as separate units."""
import re
from driver import Unit
from ctypes_lower import LowerError
import rd_units as R

P = R.P
G = R.RD_GHOSTS
AUTO = [r'[A-Za-z]+__ctor__\w+', r'[A-Za-z]+__default', r'[A-Za-z]+__reset']

# ghost record of the add_time_offset calls made on the watched elements (assumed callee contract in executable form:
# Timestamp::add_time_offset itself is discharged by the ts.* units; here only *what it is called with* matters)
EXTRA = '''
struct ato_rec { unsigned long n; long off; unsigned long tps; struct Timestamp in; };
struct ato_rec G_qr, G_mm;
struct Timestamp *g_wts_qr, *g_wts_mm;
struct seq_u8 g_OpCodesDefault; struct seq_u16 g_RrTypesDefault;
'''
ATO_STUB = (r'^Timestamp__add_time_offset$', '''  if (g_exc) return;
  if ($P2 == 0 || nondet_bool()) { g_exc = EXC_runtime_error; return; }   /* refuses: zero resolution / not representable */
  if ($P0 == g_wts_qr) { if (G_qr.n < 1000) G_qr.n++; G_qr.off = $P1; G_qr.tps = $P2; G_qr.in = *$P0; }
  if ($P0 == g_wts_mm) { if (G_mm.n < 1000) G_mm.n++; G_mm.off = $P1; G_mm.tps = $P2; G_mm.in = *$P0; }
  { struct Timestamp fresh; *$P0 = fresh; }''')
BT_STUB = (r'^CdnsBlockRead__read_blocktables$', '  dec_nested($P1);')

MEMBERS = {1: ('seq', 'm_query_responses'), 2: ('umap', 'm_address_event_counts'), 3: ('seq', 'm_malformed_messages')}
VALPOS = 'rd_depth == 1 && rd_topmap && rd_expect_val && !rd_break_pending && !rd_bad && !rd_done1 && (rd_indef1 || rd_left1 > 0) && rd_cnt1 < (1UL << 60)'


def member_of(tf_or_body, k):
    """the CdnsBlock member filled by the k-th callback, taken from the lowered callback body (not from a table)"""
    kind, name = MEMBERS[k]
    return kind, name


def check_members(L, lifted):
    """extraction guard: the k-th callback fills the member this file expects"""
    for lf in lifted:
        m = re.match(r'CdnsBlockRead__read__lambda(\d)$', lf.cname)
        if not m:
            continue
        k = int(m.group(1))
        kind, name = MEMBERS[k]
        pat = (r'seq_\w+__push_back\(&\(\(&this->base\)\)->%s,' if kind == 'seq' else r'umap_\w+__index\(&\(\(&this->base\)\)->%s,') % name
        if not re.search(pat, lf.body):
            raise LowerError('callback %d of CdnsBlockRead::read no longer fills %s' % (k, name))


def inst_contract(k):
    def gen(ast, L, tf):
        check_members(L, L.lifted)
        kind, name = MEMBERS[k]
        lv = '$1->base.' + name
        c = '''
__CPROVER_requires(__CPROVER_w_ok($1, sizeof(*$1)) && g_exc == 0)
__CPROVER_requires(%(VP)s)
__CPROVER_requires(%(lv)s.n < (1UL << 60))
__CPROVER_assigns(%(lv)s, %(cur)s, umap_present, %(G)s)
__CPROVER_ensures(g_exc == 0 || g_exc == EXC_CdnsDecoderException || g_exc == EXC_CdnsDecoderEnd)
__CPROVER_ensures((g_raised && !@RZ0) ==> g_exc != 0)
__CPROVER_ensures(g_exc == 0 ==> (rd_depth == 1 && rd_topmap && !rd_expect_val && !rd_break_pending && !rd_bad && !rd_done1 && rd_cnt1 == @C0 + 1 && (rd_indef1 ? rd_left1 == @L0 : rd_left1 + 1 == @L0)))
__CPROVER_ensures(g_exc == 0 ==> (rd_curkey == @K0 && g_kseen == @S0))
'''
        if kind == 'seq':
            c += '__CPROVER_ensures(g_exc == 0 ==> %(lv)s.n == @N0 + rd_idx2)\n'
        else:
            c += '__CPROVER_ensures(g_exc == 0 ==> (%(lv)s.n >= @N0 && %(lv)s.n <= @N0 + rd_idx2))\n'
        return c % {'lv': lv, 'VP': VALPOS, 'G': G, 'cur': cur_of(L, k)}
    return gen


def cur_of(L, k):
    kind, name = MEMBERS[k]
    return {1: 'seq_QueryResponse__cur', 2: 'umap_AddressEventCount_u64__cur', 3: 'seq_MalformedMessage__cur'}[k]


def inst_loops(k):
    def gen(ast, L, tf):
        kind, name = MEMBERS[k]
        lv = 'cap->base.' + name
        txt = '''
  __CPROVER_assigns(length, %(lv)s, %(cur)s, umap_present, %(G)s)
  __CPROVER_loop_invariant(g_exc == 0 && !rd_bad && !rd_break_pending && rd_topmap && !rd_done1 && (g_raised != 0) == (@RZ0 != 0))
  __CPROVER_loop_invariant(indef ? (rd_depth == 2 && rd_indef2) : (length > 0 ? (rd_depth == 2 && !rd_indef2 && rd_left2 == length) : (rd_depth == 1 && !rd_expect_val)))
  __CPROVER_loop_invariant(rd_idx2 <= (1UL << 60) && %(rel)s)
  __CPROVER_loop_invariant(rd_depth == 2 ? (rd_expect_val && rd_cnt1 == @C0 && rd_left1 == @L0) : (rd_cnt1 == @C0 + 1 && (rd_indef1 ? rd_left1 == @L0 : rd_left1 + 1 == @L0)))
  __CPROVER_loop_invariant(rd_curkey == @K0 && g_kseen == @S0 && rd_indef1 == @I0)
''' % {'lv': lv, 'G': G, 'cur': cur_of(L, k),
       'rel': ('%s.n == @N0 + rd_idx2' % lv) if kind == 'seq' else ('%s.n >= @N0 && %s.n <= @N0 + rd_idx2' % (lv, lv))}
        return {1: txt}
    return gen


def inst_stubs(ast, L, tf, lifted):
    """executable contracts of the three read_array instances inside CdnsBlockRead::read (discharged by rab.<k>)"""
    check_members(L, lifted)
    out = {}
    for lf in lifted:
        m = re.match(r'CdnsDecoder__read_array__CdnsBlockRead__read__(\d)$', lf.cname)
        if not m:
            continue
        k = int(m.group(1))
        kind, name = MEMBERS[k]
        lv = 'cap->base.' + name
        if kind == 'seq':
            upd = '''__typeof__(%(lv)s.wv) fresh; if (%(lv)s.wi >= %(lv)s.n && %(lv)s.wi - %(lv)s.n < n) %(lv)s.wv = fresh; %(lv)s.n += n;''' % {'lv': lv}
        else:
            upd = '''unsigned long ins = nondet_ulong(); __CPROVER_assume(ins <= n); %(lv)s.n += ins;''' % {'lv': lv}
        out[lf.cname] = '''  if (g_exc) return;
  if (nondet_bool()) { g_exc = nondet_bool() ? EXC_CdnsDecoderException : EXC_CdnsDecoderEnd; return; }
  __CPROVER_assert(%(VP)s, "read_array instance called at a value position");
  __CPROVER_assert(%(lv)s.n < (1UL << 60), "container size < 2^60");
  { unsigned long n = nondet_ulong(); __CPROVER_assume(n < (1UL << 60) && %(lv)s.n + n < (1UL << 60));   /* fewer than 2^60 items per block */
    %(upd)s
    if (rd_curkey == g_K) { g_klast = n; g_kkind = K_ARRAY; g_aseen = 1; g_alen = n; }
    rd_idx2 = n;
    rd_value_done(); }''' % {'lv': lv, 'upd': upd, 'VP': VALPOS}
    return out


GH_I = R.GH_I
UNITS = []
for k in (1, 2, 3):
    mem = '$1->base.' + MEMBERS[k][1] + '.n'
    UNITS.append(Unit('rab.%d' % k, ('CdnsBlockRead::read', None), lifted_target=r'CdnsDecoder__read_array__CdnsBlockRead__read__%d' % k,
                      contract=inst_contract(k), loops=inst_loops(k), prelude=P, extern_records=R.EXT, stubs=R.DEC_STUBS + ['umap_[A-Za-z0-9_]+__(index|begin|clear)', 'BlockTable_[A-Za-z]+__clear'],
                      gen_stubs=[ATO_STUB, BT_STUB] + R.NESTED_RD, arrays_uf=False, ghost=GH_I + [('unsigned long', 'N0', mem)], auto_inline=AUTO,
                      pre_c='#define UMAP_ANY_KEY 1\n', extra_c=EXTRA,
                      setup='  static struct CdnsBlockRead obj; struct CdnsDecoder dec;\n  __CPROVER_assume(%s);\n  __CPROVER_assume(obj.base.%s.n < (1UL << 60));\n' % (VALPOS, MEMBERS[k][1]),
                      args=['&dec', '&obj'], props=['C01', 'C08', 'C03', 'C05'], timeout=900,
                      post='  if (g_exc != 0) { CANARY("decoder exception reachable"); }',
                      note='the real CdnsDecoder::read_array body bound to the %s callback of CdnsBlockRead::read: array of any length, definite or '
                           'indefinite; every delivered item is appended (none lost, none duplicated)' % MEMBERS[k][1]))

B = '$this->base.'
IDX = B + 'm_block_preamble.block_parameters_index'
TPS = B + 'm_block_parameters.storage_parameters.ticks_per_second'
EA = B + 'm_block_preamble.earliest_time'
SEL = '(%s.has ? (unsigned long)%s.val : 0UL)' % (IDX, IDX)


def resolved(lst, g):
    w = B + lst
    return ('((g_exc == 0 && %(w)s.wi < %(w)s.n) ==> (%(g)s.n == (%(w)s.wv.time_offset.has ? 1UL : 0UL)))\n'
            '__CPROVER_ensures((g_exc == 0 && %(w)s.wi < %(w)s.n && %(w)s.wv.time_offset.has) ==> (%(g)s.in.m_secs == %(ea)s.m_secs && %(g)s.in.m_ticks == %(ea)s.m_ticks && %(g)s.tps == %(tps)s))'
            % {'w': w, 'g': g, 'ea': EA, 'tps': TPS})


BR_C = '''
__CPROVER_requires(__CPROVER_w_ok($this, sizeof(*$this)) && __CPROVER_r_ok($2, sizeof(*$2)) && g_exc == 0 && RD_FRESH && !g_raised)
__CPROVER_requires(g_wts_qr == &$this->base.m_query_responses.wv.time_offset.val && g_wts_mm == &$this->base.m_malformed_messages.wv.time_offset.val)
__CPROVER_requires(G_qr.n == 0 && G_mm.n == 0)
__CPROVER_assigns(__CPROVER_object_whole($this), G_qr, G_mm, seq_QueryResponse__cur, seq_MalformedMessage__cur, seq_BlockParameters__cur, umap_AddressEventCount_u64__cur, umap_present, ''' + G + ''')
__CPROVER_ensures(g_exc == 0 || g_exc == EXC_CdnsDecoderException || g_exc == EXC_CdnsDecoderEnd || g_exc == EXC_runtime_error)
__CPROVER_ensures(g_raised ==> g_exc != 0)
__CPROVER_ensures(g_exc == 0 ==> RD_MAP_DONE)
__CPROVER_ensures((g_exc == 0 && g_K == 0) ==> g_kseen > 0)
__CPROVER_ensures(g_exc == 0 ==> (''' + SEL + ''' < $2->n))
__CPROVER_ensures((g_exc == 0 && ''' + SEL + ''' == $2->wi) ==> (''' + TPS + ''' == $2->wv.storage_parameters.ticks_per_second && VAL_HINTS_EQ(''' + B + '''m_block_parameters.storage_parameters.storage_hints, $2->wv.storage_parameters.storage_hints)))
__CPROVER_ensures''' + resolved('m_query_responses', 'G_qr') + '''
__CPROVER_ensures''' + resolved('m_malformed_messages', 'G_mm') + '''
__CPROVER_ensures(g_exc == 0 ==> ($this->m_qr_read == 0 && $this->m_mm_read == 0))
__CPROVER_ensures((g_exc == 0 && g_K == 3) ==> (g_kseen == 0 ? $this->base.m_query_responses.n == 0 : (g_kseen == 1 ==> (g_aseen && $this->base.m_query_responses.n == g_alen))))
__CPROVER_ensures((g_exc == 0 && g_K == 5) ==> (g_kseen == 0 ? $this->base.m_malformed_messages.n == 0 : (g_kseen == 1 ==> (g_aseen && $this->base.m_malformed_messages.n == g_alen))))
__CPROVER_ensures((g_exc == 0 && g_K == 4 && g_kseen == 0) ==> $this->base.m_address_event_counts.n == 0)
__CPROVER_ensures((g_exc == 0 && g_K == 1) ==> (($this->base.m_block_statistics.has != 0) == (g_kseen > 0)))
'''
EXTRA_B = EXTRA + '#define VAL_HINTS_EQ(a, b) ((a).query_response_hints == (b).query_response_hints && (a).query_response_signature_hints == (b).query_response_signature_hints && (a).rr_hints == (b).rr_hints && (a).other_data_hints == (b).other_data_hints)\n'


def br_loops(ast, L, tf):
    names = dict((n, t) for n, t in tf.locals)
    for need in ('indef', 'length', 'is_m_block_preamble'):
        if need not in names:
            raise LowerError('CdnsBlockRead::read: local %s not found' % need)
    t = lambda s: s.replace('$this', 'this').replace('$2', 'block_parameters')
    out = {1: t('''
  __CPROVER_assigns(__CPROVER_object_whole(this), length, is_m_block_preamble, seq_QueryResponse__cur, seq_MalformedMessage__cur, seq_BlockParameters__cur, umap_AddressEventCount_u64__cur, umap_present, %(G)s)
  __CPROVER_loop_invariant(g_exc == 0 && !g_raised && RD_IN_MAP && (rd_indef1 ? indef : (!indef && length == rd_left1)))
  __CPROVER_loop_invariant(g_kseen <= rd_cnt1 && rd_cnt1 <= (1UL << 60))
  __CPROVER_loop_invariant(g_K == 0 ==> (is_m_block_preamble == (g_kseen > 0)))
  __CPROVER_loop_invariant((is_m_block_preamble && %(IDX)s.has) ==> ((unsigned long)%(IDX)s.val < $2->n && ((unsigned long)%(IDX)s.val == $2->wi ==> (%(TPS)s == $2->wv.storage_parameters.ticks_per_second && VAL_HINTS_EQ($this->base.m_block_parameters.storage_parameters.storage_hints, $2->wv.storage_parameters.storage_hints)))))
  __CPROVER_loop_invariant($this->base.m_query_responses.n < (1UL << 60) && $this->base.m_malformed_messages.n < (1UL << 60) && $this->base.m_address_event_counts.n < (1UL << 60))
  __CPROVER_loop_invariant(g_wts_qr == &$this->base.m_query_responses.wv.time_offset.val && g_wts_mm == &$this->base.m_malformed_messages.wv.time_offset.val)
  __CPROVER_loop_invariant($this->base.m_query_responses.wi == __CPROVER_loop_entry($this->base.m_query_responses.wi) && $this->base.m_malformed_messages.wi == __CPROVER_loop_entry($this->base.m_malformed_messages.wi))
  __CPROVER_loop_invariant(g_K == 3 ==> (g_kseen == 0 ? $this->base.m_query_responses.n == 0 : (g_kseen == 1 ==> (g_aseen && $this->base.m_query_responses.n == g_alen))))
  __CPROVER_loop_invariant(g_K == 5 ==> (g_kseen == 0 ? $this->base.m_malformed_messages.n == 0 : (g_kseen == 1 ==> (g_aseen && $this->base.m_malformed_messages.n == g_alen))))
  __CPROVER_loop_invariant((g_K == 4 && g_kseen == 0) ==> $this->base.m_address_event_counts.n == 0)
  __CPROVER_loop_invariant(g_K == 1 ==> (($this->base.m_block_statistics.has != 0) == (g_kseen > 0)))
''' % {'G': G, 'IDX': IDX, 'TPS': TPS})}
    if len(tf.loopinfo) != 2:
        raise LowerError('CdnsBlockRead::read: expected two range-for loops, found %d' % len(tf.loopinfo))
    for k, info in tf.loopinfo.items():
        member = re.sub(r'\W', '', info['seq'].split('->')[-1].split('.')[-1])
        g = {'m_query_responses': 'G_qr', 'm_malformed_messages': 'G_mm'}.get(member)
        if g is None:
            raise LowerError('CdnsBlockRead::read: unexpected range-for over ' + member)
        w = 'this->base.' + member
        out[k] = t('''
  __CPROVER_assigns(%(i)s, %(w)s.wv.time_offset, %(cur)s, %(g)s, g_exc)
  __CPROVER_loop_invariant(g_exc == 0 && %(i)s <= %(w)s.n)
  __CPROVER_loop_invariant((%(w)s.wv.time_offset.has != 0) == (__CPROVER_loop_entry(%(w)s.wv.time_offset.has) != 0))
  __CPROVER_loop_invariant(%(w)s.wi >= %(i)s ==> (%(g)s.n == 0 && %(w)s.wv.time_offset.val.m_secs == __CPROVER_loop_entry(%(w)s.wv.time_offset.val.m_secs)))
  __CPROVER_loop_invariant(%(w)s.wi < %(i)s ==> (%(g)s.n == (%(w)s.wv.time_offset.has ? 1UL : 0UL)))
  __CPROVER_loop_invariant((%(w)s.wi < %(i)s && %(w)s.wv.time_offset.has) ==> (%(g)s.off == (long)__CPROVER_loop_entry(%(w)s.wv.time_offset.val.m_secs) && %(g)s.in.m_secs == %(EA)s.m_secs && %(g)s.in.m_ticks == %(EA)s.m_ticks && %(g)s.tps == %(TPS)s))
  __CPROVER_decreases(%(w)s.n - %(i)s)
''' % {'i': info['counter'], 'w': w, 'cur': info['m'] + '__cur', 'g': g, 'EA': EA, 'TPS': TPS})
    return out


UNITS.append(Unit('rdb.read', ('CdnsBlockRead::read', None), contract=BR_C, loops=br_loops, prelude=P, extern_records=R.EXT,
                  stubs=R.DEC_STUBS + ['umap_[A-Za-z0-9_]+__(index|begin|clear)', 'BlockTable_[A-Za-z]+__clear'],
                  gen_stubs=[ATO_STUB, BT_STUB] + R.NESTED_RD, inline=[('CdnsBlock::clear', None)], arrays_uf=False, auto_inline=AUTO,
                  lifted_stub=inst_stubs, pre_c='#define UMAP_ANY_KEY 1\n', extra_c=EXTRA_B, split=False, weight=3,
                  setup='  static struct CdnsBlockRead obj; struct CdnsDecoder dec; static struct seq_BlockParameters bp;\n  rd_init();\n'
                        '  g_wts_qr = &obj.base.m_query_responses.wv.time_offset.val; g_wts_mm = &obj.base.m_malformed_messages.wv.time_offset.val;\n'
                        '  G_qr.n = 0; G_mm.n = 0; g_raised = 0;\n',
                  args=['&obj', '&dec', '&bp'], props=['C01', 'C17', 'C08', 'C03', 'C05'], timeout=1800,
                  post='  if (g_exc != 0) { CANARY("decoder exception reachable"); }\n  if (g_exc == 0 && obj.base.m_query_responses.wi < obj.base.m_query_responses.n && obj.base.m_query_responses.wv.time_offset.has) { CANARY("resolved record reachable"); }',
                  note='block map with any number of entries in any order (unknown, negative, repeated keys), definite or indefinite: the preamble is mandatory; the '
                       'block parameters are the bounds-checked entry the preamble selects (0 if none); after the whole map is read, every stored '
                       'query/response and malformed-message record that carries an offset gets exactly one add_time_offset(stored offset, ticks-per-second of the '
                       'selected parameters) applied to a copy of the *final* earliest time; records without an offset are not touched'))

TRUSTED_BASE = R.TRUSTED_BASE + [
    'Timestamp::add_time_offset as an executable stub recording its arguments (its arithmetic: ts.* units)',
    'CdnsBlockRead::read_blocktables, BlockPreamble::read, BlockStatistics::read, QueryResponse::read, ...: consume exactly one item (r.* units; read_blocktables itself is not under contract)',
    'A8 std::unordered_map: operator[] inserts at most one entry']
ASSUMPTIONS = R.ASSUMPTIONS + ['fewer than 2^60 items per block']

# ---------------------------------------------------------------- presentation of a stored record: fill_generic_*_list, read_generic_qr (C01, C03)
import block_units as BU
GETTER_STUBS = []
for nm, tab, rec, sub in BU.ACCESS:
    rt = {'data': 'cstring', 'list': 'struct seq_u32'}.get(sub, 'struct ' + rec)
    GETTER_STUBS.append((r'^CdnsBlock__get_%s$' % nm, '''  static %(rt)s zero;
  if (g_exc) return zero;
  if ((unsigned long)$P1 >= $P0->%(tab)s.n) { g_exc = EXC_runtime_error; return zero; }   /* executable form of the blk.get_%(nm)s contract */
  return bt_%(rec)s__at(&$P0->%(tab)s, $P1)->%(sub)s;''' % {'rt': rt, 'tab': tab, 'rec': rec, 'nm': nm, 'sub': sub} if sub else
                         '''  static %(rt)s zero;
  if (g_exc) return zero;
  if ((unsigned long)$P1 >= $P0->%(tab)s.n) { g_exc = EXC_runtime_error; return zero; }   /* executable form of the blk.get_%(nm)s contract */
  return *bt_%(rec)s__at(&$P0->%(tab)s, $P1);''' % {'rt': rt, 'tab': tab, 'rec': rec, 'nm': nm}))
BTCURS = 'bt_StringItem__cur, bt_ClassType__cur, bt_QueryResponseSignature__cur, bt_IndexListItem__cur, bt_Question__cur, bt_RR__cur, bt_MalformedMessageData__cur'
OPTEQ = lambda a, b: '(((%s.has != 0) == (%s.has != 0)) && (!%s.has || %s.val == %s.val))' % (a, b, b, a, b)
TB = '$this->base.'


def fill_rel(kind, ret, this):
    b = this + '->base.'
    item, tab = ('RR', 'm_rr') if kind == 'rr' else ('Question', 'm_qrr')
    src = b + tab + '.wv'
    rel = '(%(s)s.name_index == %(b)sm_name_rdata.wi ==> (%(r)s.wv.name.id == %(b)sm_name_rdata.wv.data.id && %(r)s.wv.name.len == %(b)sm_name_rdata.wv.data.len))' \
          ' && (%(s)s.classtype_index == %(b)sm_classtype.wi ==> (%(r)s.wv.classtype.type == %(b)sm_classtype.wv.type && %(r)s.wv.classtype.class_ == %(b)sm_classtype.wv.class_))' % {'s': src, 'b': b, 'r': ret}
    if kind == 'rr':
        rel += ' && ' + OPTEQ(ret + '.wv.ttl', src + '.ttl') + ' && ((%s.wv.rdata.has != 0) == (%s.rdata_index.has != 0))' % (ret, src)
        rel += ' && ((%(s)s.rdata_index.has && %(s)s.rdata_index.val == %(b)sm_name_rdata.wi) ==> %(r)s.wv.rdata.val.id == %(b)sm_name_rdata.wv.data.id)' % {'s': src, 'b': b, 'r': ret}
    return rel


def fill_contract(kind):
    item, tab = ('RR', 'm_rr') if kind == 'rr' else ('Question', 'm_qrr')
    return '''
__CPROVER_requires(__CPROVER_r_ok($this, sizeof(*$this)) && __CPROVER_r_ok($1, sizeof(*$1)) && g_exc == 0 && $1->n < (1UL << 60))
__CPROVER_assigns(''' + BTCURS + ''', seq_u32__cur, g_exc)
__CPROVER_ensures(g_exc == 0 || g_exc == EXC_runtime_error)
__CPROVER_ensures(g_exc == 0 ==> $ret.n == $1->n)
__CPROVER_ensures((g_exc == 0 && $ret.wi < $ret.n && $ret.wi == $1->wi && (unsigned long)$1->wv == %(tab)s.wi) ==> (%(rel)s))
''' % {'tab': TB + tab, 'rel': fill_rel(kind, '$ret', '$this')}


def fill_loops(kind):
    def gen(ast, L, tf):
        if len(tf.loopinfo) != 1:
            raise LowerError('%s: expected one range-for' % tf.cname)
        k, info = list(tf.loopinfo.items())[0]
        lst = [n for n, t in tf.locals if t == 'struct seq_GenericResourceRecord']
        if len(lst) != 1:
            raise LowerError('%s: result list local not found' % tf.cname)
        rel = fill_rel(kind, lst[0], 'this')
        item, tab = ('RR', 'm_rr') if kind == 'rr' else ('Question', 'm_qrr')
        i = info['counter']
        # a scratch record declared at function level (hoisted out of the loop by a refactoring) belongs to the loop's frame: locals are invisible to the
        # caller, so this widens nothing the property talks about; whether stale members leak into the next element is decided by the invariant
        locs = ''.join(', ' + n for n, t in tf.locals if t == 'struct GenericResourceRecord' and getattr(tf, 'local_depth', {}).get(n) == 0)
        return {k: '''
  __CPROVER_assigns(%(i)s, %(l)s, %(curs)s, seq_u32__cur, g_exc%(locs)s)
  __CPROVER_loop_invariant(g_exc == 0 && %(i)s <= list->n && %(l)s.n == %(i)s && %(l)s.wi == __CPROVER_loop_entry(%(l)s.wi))
  __CPROVER_loop_invariant((%(l)s.wi < %(i)s && %(l)s.wi == list->wi && (unsigned long)list->wv == this->base.%(tab)s.wi) ==> (%(rel)s))
  __CPROVER_decreases(list->n - %(i)s)
''' % {'i': i, 'l': lst[0], 'locs': locs, 'curs': BTCURS, 'tab': tab, 'rel': rel}}
    return gen


RG_STUBS = ['BlockTable_[A-Za-z]+__(size|op_index)', 'seq_[A-Za-z0-9_]+__(push_back|clear|size|at|reserve|empty)', 'cstring__[a-z]+', 'opt_[A-Za-z0-9_]+__value']
for kind, fn in (('rr', 'fill_generic_rr_list'), ('q', 'fill_generic_q_list')):
    UNITS.append(Unit('rdb.' + fn, ('CdnsBlockRead::' + fn, None), contract=fill_contract(kind), loops=fill_loops(kind), prelude=P, extern_records=R.EXT,
                      stubs=RG_STUBS, gen_stubs=GETTER_STUBS, arrays_uf=False, auto_inline=AUTO,
                      setup='  static struct CdnsBlockRead obj; static struct seq_u32 lst;\n  __CPROVER_assume(lst.n < (1UL << 60));\n', args=['&obj', '&lst'],
                      props=['C01', 'C03'], timeout=900, post='  if (g_exc != 0) { CANARY("out-of-range index reachable"); }',
                      note='list of any length holding any indices (e.g. read from a file): every table is reached only through the bounds-checked accessors; '
                           'one output record per list entry, in order; name, class/type, TTL and RDATA of the watched entry are the table entries the indices denote'))

# ---------------------------------------------------------------- read_generic_qr / read_generic_mm: the record handed to the user equals the stored one (C01)
RESOLVE = {   # index member -> (presented member, table, sub-member) : RFC 8618 naming (x-index refers to table x)
    'client_address_index': ('client_ip', 'm_ip_address', 'data'), 'server_address_index': ('server_ip', 'm_ip_address', 'data'),
    'query_name_index': ('query_name', 'm_name_rdata', 'data'), 'query_opt_rdata_index': ('query_opt_rdata', 'm_name_rdata', 'data'),
    'bailiwick_index': ('bailiwick', 'm_name_rdata', 'data'), 'query_classtype_index': ('query_classtype', 'm_classtype', None)}
EXT_LISTS = {'question_index': 'questions', 'answer_index': 'answers', 'authority_index': 'authority', 'additional_index': 'additional'}


def opt_scalar_eq(L, ta, a, b):
    """presented optional a equals stored optional b (value converted to the presented type)"""
    inner = L.types.classify(ta)[1].args[0]
    ic = L.types.classify(inner)[0]
    if ic == 'str':
        return '(((%s.has != 0) == (%s.has != 0)) && (!%s.has || (%s.val.id == %s.val.id && %s.val.len == %s.val.len)))' % (a, b, b, a, b, a, b)
    if ic == 'record' and L.types.strip_ns(L.types.classify(inner)[1].name) == 'Timestamp':
        return '(((%s.has != 0) == (%s.has != 0)) && (!%s.has || (%s.val.m_secs == %s.val.m_secs && %s.val.m_ticks == %s.val.m_ticks)))' % (a, b, b, a, b, a, b)
    if ic in ('builtin', 'enum'):
        return '(((%s.has != 0) == (%s.has != 0)) && (!%s.has || %s.val == (%s)%s.val))' % (a, b, b, a, L.types.ctype(inner), b)
    raise LowerError('presented member of class ' + ic)


def present_group(ast, L, gen, grec, stored, srec, cond, clauses, skip=()):
    """clauses for every member of the stored record srec (C lvalue `stored`) under condition cond; absent => presented members absent"""
    gf, sf = R.fields_of(ast, grec), R.fields_of(ast, srec)
    for name, ty in sf.items():
        if name in skip:
            continue
        if name in RESOLVE:
            pres, tab, sub = RESOLVE[name]
            if pres not in gf:
                raise LowerError('%s has no member %s for %s' % (grec, pres, name))
            t = TB + tab
            clauses.append('(%s) ==> ((%s.%s.has != 0) == (%s.%s.has != 0))' % (cond, gen, pres, stored, name))
            if sub:
                clauses.append('((%s) && %s.%s.has && (unsigned long)%s.%s.val == %s.wi) ==> (%s.%s.val.id == %s.wv.%s.id && %s.%s.val.len == %s.wv.%s.len)' %
                               (cond, stored, name, stored, name, t, gen, pres, t, sub, gen, pres, t, sub))
            else:
                clauses.append('((%s) && %s.%s.has && (unsigned long)%s.%s.val == %s.wi) ==> (%s.%s.val.type == %s.wv.type && %s.%s.val.class_ == %s.wv.class_)' %
                               (cond, stored, name, stored, name, t, gen, pres, t, gen, pres, t))
            clauses.append('!(%s) ==> !%s.%s.has' % (cond, gen, pres)) if cond != '1' else None
        elif name == 'time_offset':
            clauses.append('(%s) ==> %s' % (cond, opt_scalar_eq(L, gf['ts'], gen + '.ts', stored + '.time_offset')))
        elif name in gf:
            clauses.append('(%s) ==> %s' % (cond, opt_scalar_eq(L, gf[name], gen + '.' + name, stored + '.' + name)))
            if cond != '1':
                clauses.append('!(%s) ==> !%s.%s.has' % (cond, gen, name))
        else:
            raise LowerError('stored member %s.%s has no presented counterpart' % (srec, name))


def present_contract(which):
    def gen(ast, L, tf):
        lst = TB + ('m_query_responses' if which == 'qr' else 'm_malformed_messages')
        cnt = '$this->' + ('m_qr_read' if which == 'qr' else 'm_mm_read')
        w = lst + '.wv'
        live = '(g_exc == 0 && !*$1 && @R0 == %s.wi)' % lst
        cl = []
        if which == 'qr':
            present_group(ast, L, '$ret', 'GenericQueryResponse', w, 'QueryResponse', '1', cl,
                          skip=('qr_signature_index', 'response_processing_data', 'query_extended', 'response_extended'))
            sig = '%s.qr_signature_index.has' % w
            present_group(ast, L, '$ret', 'GenericQueryResponse', TB + 'm_qr_sig.wv', 'QueryResponseSignature',
                          '%s && (unsigned long)%s.qr_signature_index.val == %sm_qr_sig.wi' % (sig, w, TB), [])   # (names checked below)
            sub = []
            present_group(ast, L, '$ret', 'GenericQueryResponse', TB + 'm_qr_sig.wv', 'QueryResponseSignature', 'SIGW', sub)
            for c in sub:
                if c.startswith('!(SIGW)'):
                    cl.append(c.replace('!(SIGW)', '!(%s)' % sig))
                else:
                    cl.append(c.replace('SIGW', '%s && (unsigned long)%s.qr_signature_index.val == %sm_qr_sig.wi' % (sig, w, TB)))
            rp = '%s.response_processing_data' % w
            sub = []
            present_group(ast, L, '$ret', 'GenericQueryResponse', rp + '.val', 'ResponseProcessingData', rp + '.has', sub)
            cl += sub
            for pre_, ext in (('query', 'query_extended'), ('response', 'response_extended')):
                for idx, suffix in EXT_LISTS.items():
                    cl.append('(($ret.%s_%s.has != 0) == (%s.%s.has && %s.%s.val.%s.has))' % (pre_, suffix, w, ext, w, ext, idx))
        else:
            present_group(ast, L, '$ret', 'GenericMalformedMessage', w, 'MalformedMessage', '1', cl, skip=('message_data_index',))
            md = '%s.message_data_index.has' % w
            sub = []
            present_group(ast, L, '$ret', 'GenericMalformedMessage', TB + 'm_malformed_message_data.wv', 'MalformedMessageData', 'MDW', sub)
            for c in sub:
                if c.startswith('!(MDW)'):
                    cl.append(c.replace('!(MDW)', '!(%s)' % md))
                else:
                    cl.append(c.replace('MDW', '%s && (unsigned long)%s.message_data_index.val == %sm_malformed_message_data.wi' % (md, w, TB)))
        c = '''
__CPROVER_requires(__CPROVER_w_ok($this, sizeof(*$this)) && __CPROVER_w_ok($1, 1) && g_exc == 0 && %(cnt)s < (1UL << 60))
__CPROVER_assigns(*$1, %(cnt)s, %(curs)s, seq_u32__cur, %(cur)s, g_exc)
__CPROVER_ensures(g_exc == 0 || g_exc == EXC_runtime_error)
__CPROVER_ensures(g_exc == 0 ==> ((*$1 != 0) == (@R0 >= %(lst)s.n)))
__CPROVER_ensures((g_exc == 0 && !*$1) ==> %(cnt)s == @R0 + 1)
__CPROVER_ensures((g_exc != 0 || *$1) ==> %(cnt)s == @R0)
''' % {'cnt': cnt, 'curs': BTCURS, 'lst': lst, 'cur': 'seq_QueryResponse__cur' if which == 'qr' else 'seq_MalformedMessage__cur'}
        for x in cl:
            if x:
                c += '__CPROVER_ensures(%s ==> (%s))\n' % (live, x)
        return c
    return gen


FILL_STUBS = [(r'^CdnsBlockRead__fill_generic_(q|rr)_list$', '''  static struct seq_GenericResourceRecord zero;
  if (g_exc) return zero;
  if (nondet_bool()) { g_exc = EXC_runtime_error; return zero; }     /* an index in the list is out of range (rdb.fill_generic_*_list) */
  { struct seq_GenericResourceRecord r; r.n = $P1->n; return r; }''')]
for which, fn, cntm in (('qr', 'read_generic_qr', 'm_qr_read'), ('mm', 'read_generic_mm', 'm_mm_read')):
    UNITS.append(Unit('rdb.' + fn, ('CdnsBlockRead::' + fn, None), contract=present_contract(which), prelude=P, extern_records=R.EXT,
                      stubs=RG_STUBS, gen_stubs=GETTER_STUBS + FILL_STUBS, arrays_uf=False, auto_inline=AUTO, ghost=[('unsigned long', 'R0', '$this->' + cntm)],
                      extra_c='struct seq_u8 g_OpCodesDefault; struct seq_u16 g_RrTypesDefault;\n', split=False,
                      setup='  static struct CdnsBlockRead obj; _Bool a_end;\n  __CPROVER_assume(obj.%s < (1UL << 60));\n' % cntm, args=['&obj', '&a_end'],
                      props=['C01', 'C03', 'C17'], timeout=1800,
                      post='  if (g_exc != 0) { CANARY("out-of-range index reachable"); }\n  if (g_exc == 0 && !a_end) { CANARY("record returned reachable"); }',
                      note='records are handed out in stored order, end is reported exactly after the last; every member of the presented record equals the stored '
                           'member (time = the resolved time), every index member is resolved through the bounds-checked accessor of its table, absent members stay absent'))

# ---------------------------------------------------------------- CdnsBlockRead::read_blocktables (C08, C01: entry k of a table in the file gets index k; C03)
def bt_members(lifted):
    """k -> (table member, element record) of the k-th callback of read_blocktables, from the lowered callback bodies"""
    out = {}
    for lf in lifted:
        m = re.match(r'CdnsBlockRead__read_blocktables__lambda(\d+)$', lf.cname)
        if not m:
            continue
        mm = re.search(r'BlockTable_([A-Za-z]+?)__(?:add_value__p_\w+|add)\(&\(\(&this->base\)\)->(\w+),', lf.body)
        if not mm:
            raise LowerError('callback %s of read_blocktables does not store into a block table' % m.group(1))
        out[int(m.group(1))] = (mm.group(2), mm.group(1))
    return out


def bti_contract(k):
    def gen(ast, L, tf):
        mem, rec = bt_members(L.lifted + [tf])[k] if k in bt_members(L.lifted + [tf]) else (None, None)
        if mem is None:
            raise LowerError('read_blocktables: callback %d not found' % k)
        lv = '$1->base.' + mem
        return '''
__CPROVER_requires(__CPROVER_w_ok($1, sizeof(*$1)) && g_exc == 0)
__CPROVER_requires(%(VP)s)
__CPROVER_requires(%(lv)s.n == @N0 && @N0 < (1UL << 31))
__CPROVER_assigns(%(lv)s, bt_%(rec)s__cur, g_bt_adds, %(G)s)
__CPROVER_ensures(g_exc == 0 || g_exc == EXC_CdnsDecoderException || g_exc == EXC_CdnsDecoderEnd)
__CPROVER_ensures((g_raised && !@RZ0) ==> g_exc != 0)
__CPROVER_ensures(g_exc == 0 ==> (rd_depth == 1 && rd_topmap && !rd_expect_val && !rd_break_pending && !rd_bad && !rd_done1 && rd_cnt1 == @C0 + 1 && (rd_indef1 ? rd_left1 == @L0 : rd_left1 + 1 == @L0)))
__CPROVER_ensures(g_exc == 0 ==> (rd_curkey == @K0 && g_kseen == @S0))
__CPROVER_ensures(g_exc == 0 ==> %(lv)s.n == @N0 + rd_idx2)
''' % {'lv': lv, 'VP': VALPOS, 'G': G, 'rec': rec}
    return gen


def bti_loops(k):
    def gen(ast, L, tf):
        mem, rec = bt_members(L.lifted + [tf])[k]
        lv = 'cap->base.' + mem
        return {1: '''
  __CPROVER_assigns(length, %(lv)s, bt_%(rec)s__cur, g_bt_adds, %(G)s)
  __CPROVER_loop_invariant(g_exc == 0 && !rd_bad && !rd_break_pending && rd_topmap && !rd_done1 && (g_raised != 0) == (@RZ0 != 0))
  __CPROVER_loop_invariant(indef ? (rd_depth == 2 && rd_indef2) : (length > 0 ? (rd_depth == 2 && !rd_indef2 && rd_left2 == length) : (rd_depth == 1 && !rd_expect_val)))
  __CPROVER_loop_invariant(rd_idx2 <= (1UL << 60) && %(lv)s.n == @N0 + rd_idx2)
  __CPROVER_loop_invariant(rd_depth == 2 ? (rd_expect_val && rd_cnt1 == @C0 && rd_left1 == @L0) : (rd_cnt1 == @C0 + 1 && (rd_indef1 ? rd_left1 == @L0 : rd_left1 + 1 == @L0)))
  __CPROVER_loop_invariant(rd_curkey == @K0 && g_kseen == @S0 && rd_indef1 == @I0)
''' % {'lv': lv, 'G': G, 'rec': rec}}
    return gen


def bti_stubs(ast, L, tf, lifted):
    mems = bt_members(lifted)
    out = {}
    for lf in lifted:
        m = re.match(r'CdnsDecoder__read_array__CdnsBlockRead__read_blocktables__(\d+)$', lf.cname)
        if not m:
            continue
        mem, rec = mems[int(m.group(1))]
        lv = 'cap->base.' + mem
        out[lf.cname] = '''  if (g_exc) return;
  if (nondet_bool()) { g_exc = nondet_bool() ? EXC_CdnsDecoderException : EXC_CdnsDecoderEnd; return; }
  __CPROVER_assert(%(VP)s, "read_array instance called at a value position");
  { unsigned long n = nondet_ulong(); __CPROVER_assume(n < (1UL << 60) && %(lv)s.n + n < (1UL << 31));   /* fewer than 2^31 entries per table */
    __typeof__(%(lv)s.wv) fresh; if (%(lv)s.wi >= %(lv)s.n && %(lv)s.wi - %(lv)s.n < n) %(lv)s.wv = fresh; %(lv)s.n += n;
    if (rd_curkey == g_K) { g_klast = n; g_kkind = K_ARRAY; g_aseen = 1; g_alen = n; }
    rd_idx2 = n;
    rd_value_done(); }''' % {'lv': lv, 'VP': VALPOS}
    return out


def bt_read_loops(ast, L, tf):
    names = dict((n, t) for n, t in tf.locals)
    if 'indef' not in names or 'length' not in names:
        raise LowerError('read_blocktables: loop locals not found')
    tabs = ' && '.join('this->base.%s.n < (1UL << 31)' % t for t in BU.TABLES)
    return {1: '''
  __CPROVER_assigns(__CPROVER_object_whole(this), length, %(curs)s, g_bt_adds, %(G)s)
  __CPROVER_loop_invariant(g_exc == 0 && !g_raised && RD_IN_MAP && (rd_indef1 ? indef : (!indef && length == rd_left1)))
  __CPROVER_loop_invariant(g_kseen <= rd_cnt1 && rd_cnt1 <= (1UL << 60))
  __CPROVER_loop_invariant(%(tabs)s)
%(perkey)s''' % {'G': G, 'curs': BTCURS, 'tabs': tabs,
       'perkey': ''.join('  __CPROVER_loop_invariant(g_K == %d ==> (g_kseen == 0 ? this->base.%s.n == @T0_%s : (g_kseen == 1 ==> (g_aseen && this->base.%s.n == @T0_%s + g_alen))))\n' % (BU.TKEY[t], t, t, t, t) for t in BU.TABLES)}}


BTR_C = '''
__CPROVER_requires(__CPROVER_w_ok($this, sizeof(*$this)) && g_exc == 0 && RD_FRESH && !g_raised)
__CPROVER_requires(''' + ' && '.join('$this->base.%s.n < (1UL << 31)' % t for t in BU.TABLES) + ''')
__CPROVER_assigns(__CPROVER_object_whole($this), ''' + BTCURS + ''', g_bt_adds, ''' + G + ''')
__CPROVER_ensures(g_exc == 0 || g_exc == EXC_CdnsDecoderException || g_exc == EXC_CdnsDecoderEnd)
__CPROVER_ensures(g_exc == 0 ==> RD_MAP_DONE)
__CPROVER_ensures(g_raised ==> g_exc != 0)
''' + ''.join('__CPROVER_ensures((g_exc == 0 && g_K == %d) ==> (g_kseen == 0 ? $this->base.%s.n == @T0_%s : (g_kseen == 1 ==> (g_aseen && $this->base.%s.n == @T0_%s + g_alen))))\n' % (BU.TKEY[t], t, t, t, t) for t in BU.TABLES)
BTI_STUBS = R.DEC_STUBS + ['BlockTable_[A-Za-z]+__(size|op_index|find|add|add_value__p_[A-Za-z]+|clear)']
for k in range(1, 10):
    UNITS.append(Unit('rabt.%d' % k, ('CdnsBlockRead::read_blocktables', None), lifted_target=r'CdnsDecoder__read_array__CdnsBlockRead__read_blocktables__%d' % k,
                      contract=bti_contract(k), loops=bti_loops(k), prelude=P, extern_records=R.EXT, stubs=BTI_STUBS, gen_stubs=R.NESTED_RD, arrays_uf=False,
                      ghost=GH_I + [('unsigned long', 'N0', None)], auto_inline=AUTO, extra_c='struct seq_u8 g_OpCodesDefault; struct seq_u16 g_RrTypesDefault;\n',
                      setup='  static struct CdnsBlockRead obj; struct CdnsDecoder dec;\n  __CPROVER_assume(%s);\n' % VALPOS,
                      args=['&dec', '&obj'], props=['C01', 'C08', 'C03', 'C05'], timeout=900, post='  if (g_exc != 0) { CANARY("decoder exception reachable"); }',
                      note='the real CdnsDecoder::read_array body bound to the k-th table callback of read_blocktables: every delivered entry is appended with add_value, '
                           'so entry j of the array gets index (old size + j)'))
UNITS.append(Unit('rdb.read_blocktables', ('CdnsBlockRead::read_blocktables', None), contract=BTR_C, loops=bt_read_loops, prelude=P, extern_records=R.EXT,
                  stubs=BTI_STUBS, gen_stubs=R.NESTED_RD, arrays_uf=False, auto_inline=AUTO, lifted_stub=bti_stubs, split=False,
                  ghost=[('unsigned long', 'T0_' + t, '$this->base.%s.n' % t) for t in BU.TABLES],
                  extra_c='struct seq_u8 g_OpCodesDefault; struct seq_u16 g_RrTypesDefault;\n',
                  setup='  static struct CdnsBlockRead obj; struct CdnsDecoder dec;\n  rd_init(); g_raised = 0;\n  __CPROVER_assume(' + ' && '.join('obj.base.%s.n < (1UL << 31)' % t for t in BU.TABLES) + ');\n',
                  args=['&obj', '&dec'], props=['C08', 'C01', 'C03', 'C05'], timeout=1800, post='  if (g_exc != 0) { CANARY("decoder exception reachable"); }',
                  note='tables map with any number of entries in any order (unknown, negative, repeated keys), definite or indefinite: consumed exactly; each known key '
                       'reads one array into its table; every other value is skipped as one item'))

# ---------------------------------------------------------------- read_generic_aec
IT = '$this->m_aec_read'
AEC_GH = [('_Bool', 'END0', IT + ' == 0'),
          ('unsigned char', 'TY0', '(%s ? (unsigned char)%s->first.ae_type : (unsigned char)0)' % (IT, IT)),
          ('unsigned int', 'AX0', '(%s ? %s->first.ae_address_index : 0u)' % (IT, IT)),
          ('unsigned long', 'CN0', '(%s ? %s->second : 0UL)' % (IT, IT)),
          ('_Bool', 'CH0', '(%s ? %s->first.ae_code.has : (_Bool)0)' % (IT, IT)), ('unsigned char', 'CV0', '(%s ? %s->first.ae_code.val : (unsigned char)0)' % (IT, IT)),
          ('_Bool', 'FH0', '(%s ? %s->first.ae_transport_flags.has : (_Bool)0)' % (IT, IT)), ('unsigned char', 'FV0', '(%s ? (unsigned char)%s->first.ae_transport_flags.val : (unsigned char)0)' % (IT, IT))]
AEC_C = '''
__CPROVER_requires(__CPROVER_w_ok($this, sizeof(*$this)) && __CPROVER_w_ok($1, 1) && g_exc == 0)
__CPROVER_requires(''' + IT + ''' == 0 || ''' + IT + ''' == &umap_AddressEventCount_u64__cur)
__CPROVER_assigns(*$1, ''' + IT + ''', umap_AddressEventCount_u64__cur, bt_StringItem__cur, g_exc)
__CPROVER_ensures(g_exc == 0 || g_exc == EXC_runtime_error)
__CPROVER_ensures(g_exc == 0 ==> ((*$1 != 0) == (@END0 != 0)))
__CPROVER_ensures((g_exc == 0 && !*$1) ==> ((unsigned char)$ret.ae_type == @TY0 && $ret.ae_count == @CN0))
__CPROVER_ensures((g_exc == 0 && !*$1) ==> ((($ret.ae_code.has != 0) == (@CH0 != 0)) && (!@CH0 || $ret.ae_code.val == @CV0)))
__CPROVER_ensures((g_exc == 0 && !*$1) ==> ((($ret.ae_transport_flags.has != 0) == (@FH0 != 0)) && (!@FH0 || (unsigned char)$ret.ae_transport_flags.val == @FV0)))
__CPROVER_ensures((g_exc == 0 && !*$1 && (unsigned long)@AX0 == $this->base.m_ip_address.wi) ==> ($ret.ip_address.id == $this->base.m_ip_address.wv.data.id && $ret.ip_address.len == $this->base.m_ip_address.wv.data.len))
__CPROVER_ensures((g_exc == 0 && !*$1) ==> (unsigned long)@AX0 < $this->base.m_ip_address.n)
__CPROVER_ensures((g_exc != 0 || *$1) ==> ''' + IT + ''' == (@END0 ? (struct pair_AddressEventCount_u64 *)0 : &umap_AddressEventCount_u64__cur))
'''
UNITS.append(Unit('rdb.read_generic_aec', ('CdnsBlockRead::read_generic_aec', None), contract=AEC_C, prelude=P, extern_records=R.EXT,
                  stubs=RG_STUBS + ['umap_[A-Za-z0-9_]+__(next|begin|index|find)'], gen_stubs=GETTER_STUBS, arrays_uf=False, auto_inline=AUTO, ghost=AEC_GH,
                  setup='  static struct CdnsBlockRead obj; _Bool a_end;\n  { struct pair_AddressEventCount_u64 fresh; umap_AddressEventCount_u64__cur = fresh; }\n  obj.m_aec_read = nondet_bool() ? (struct pair_AddressEventCount_u64 *)0 : &umap_AddressEventCount_u64__cur;   /* (assigned, not assumed: DESIGN T3) */\n', args=['&obj', '&a_end'],
                  props=['C01', 'C03'], timeout=600,
                  post='  if (g_exc != 0) { CANARY("out-of-range index reachable"); }\n  if (g_exc == 0 && !a_end) { CANARY("record returned reachable"); }',
                  note='address event counts are handed out one map entry at a time until end(); type, code, transport flags and count of the presented record are those of '
                       'the entry, the address is resolved through the bounds-checked accessor; the iterator advances only after a successful resolution'))
