/* Item layer, writer side: the encoder seen through the contracts of the byte layer.
 * Each CdnsEncoder operation (a) returns exactly the RFC 8949 length of what it emits and adds it to g_bytes (C10),
 * (b) advances a ghost CBOR grammar monitor (C02), (c) is observed by a watched map key / watched array element (C09, C01).
 * These stubs are the byte-layer contracts (discharged in enc.* units) reduced to tokens: trusted base A13(ii). */
#include "rt_common.h"
#include "item_types.h"

struct CdnsEncoder { char opaque; };

enum { K_NONE = 0, K_UINT = 1, K_NINT = 2, K_BOOL = 3, K_TSTR = 4, K_BSTR = 5, K_ARRAY = 6, K_MAP = 7, K_NESTED = 8, K_IARRAY = 9 };

#define MAXD 4
struct mon { int t; unsigned long need[MAXD]; unsigned long done[MAXD]; _Bool indef[MAXD]; _Bool ismap[MAXD]; _Bool bad; };
struct mon g_mon;
unsigned long g_bytes;
long g_K;               /* watched map key (arbitrary) of the map opened at level 1 */
unsigned long g_kcount; /* how many times key g_K was emitted */
int g_kkind; unsigned long g_kval;   /* kind and value of the item emitted under key g_K (arrays/maps: declared length) */
long g_curkey; _Bool g_keybad;
unsigned long g_Ei;     /* watched element index in the array under key g_K (or in the level-1 array) */
int g_ekind; unsigned long g_eval; _Bool g_eseen;

int kt_depth;            /* 0 = nothing opened yet, 1 = inside the top-level container, 2 = inside an array/map that is a member value */
_Bool kt_topmap, kt_isval;
unsigned long kt_left, kt_n;
unsigned long kt_topn, kt_pairs, kt_topleafs; _Bool kt_over;
#define HL(v) ((v) <= 23UL ? 1UL : (v) <= 0xffUL ? 2UL : (v) <= 0xffffUL ? 3UL : (v) <= 0xffffffffUL ? 5UL : 9UL)
#define KT_MAP_DONE (kt_depth == 1 && kt_topmap && !kt_isval && kt_pairs == kt_topn && !g_keybad && !kt_over)
#define KT_ARRAY_DONE (kt_depth == 1 && !kt_topmap && kt_left == 0 && !g_keybad && !kt_over)
#define KT_LEAF_DONE (kt_depth == 0 && kt_topleafs == 1 && !kt_over)
#define KT_NOTHING (kt_depth == 0 && kt_topleafs == 0)
#define KT_FRESH (kt_depth == 0 && kt_topleafs == 0 && !kt_over && g_kcount == 0 && g_kkind == K_NONE && !g_keybad && !g_eseen && g_ekind == K_NONE)
#define MON_FRESH (g_mon.t == 0 && g_mon.need[0] == 1 && g_mon.done[0] == 0 && !g_mon.indef[0] && !g_mon.ismap[0] && !g_mon.bad)
#define MON_ONE_ITEM (g_mon.t == 0 && g_mon.need[0] == 0 && g_mon.done[0] == 1 && !g_mon.bad && !g_keybad)
#define MON_NOTHING (g_mon.t == 0 && g_mon.need[0] == 1 && g_mon.done[0] == 0 && !g_mon.bad)

static inline void mon_init(void)
{
  g_mon.t = 0; g_mon.need[0] = 1; g_mon.done[0] = 0; g_mon.indef[0] = 0; g_mon.ismap[0] = 0; g_mon.bad = 0;
  g_bytes = 0; g_kcount = 0; g_kkind = K_NONE; g_kval = 0; g_curkey = 0; g_keybad = 0; g_ekind = K_NONE; g_eval = 0; g_eseen = 0;
  kt_depth = 0; kt_topmap = 0; kt_isval = 0; kt_left = 0; kt_n = 0; kt_topn = 0; kt_pairs = 0; kt_topleafs = 0; kt_over = 0;
}
/* (B) key/element tracker: an automaton of its own whose control does not depend on the declared counts of (A) */
static inline void kt_leaf(int kind, unsigned long val)
{
  if (kt_depth == 0) { kt_topleafs++; g_ekind = kind; g_eval = val; g_eseen = 1; return; }
  if (kt_depth == 1) {
    if (kt_topmap) {
      if (!kt_isval) {
        if (kind != K_UINT && kind != K_NINT) g_keybad = 1;
        g_curkey = (kind == K_NINT) ? -1L - (long)val : (long)val;
        if (g_curkey == g_K) g_kcount++;
        kt_pairs++;
        kt_isval = 1;
      } else { if (g_curkey == g_K) { g_kkind = kind; g_kval = val; } kt_isval = 0; }
    } else { if (kt_n - kt_left == g_Ei) { g_ekind = kind; g_eval = val; g_eseen = 1; } if (kt_left > 0) kt_left--; else kt_over = 1; }
  } else if (kt_depth == 2) {
    if (g_curkey == g_K && kt_n - kt_left == g_Ei) { g_ekind = kind; g_eval = val; g_eseen = 1; }
    if (kt_left > 0) kt_left--;
    if (kt_left == 0) { kt_depth = 1; kt_isval = 0; }
  }
}
static inline void kt_open(unsigned long n, _Bool ismap, _Bool indef)
{
  if (kt_depth == 0) { if (kt_topleafs != 0) kt_over = 1; kt_depth = 1; kt_topmap = ismap; kt_isval = 0; kt_n = n; kt_left = n; kt_topn = n; kt_pairs = 0; return; }
  if (kt_depth == 1 && kt_topmap && kt_isval) {
    if (g_curkey == g_K) { g_kkind = indef ? K_IARRAY : (ismap ? K_MAP : K_ARRAY); g_kval = n; }
    kt_n = ismap ? 2 * n : n; kt_left = kt_n;
    if (kt_left == 0 && !indef) kt_isval = 0; else kt_depth = 2;
    return;
  }
  if (kt_depth == 1 && !kt_topmap) { /* a container as an element of the top-level array: not produced by the writers */ }
  g_keybad = 1;   /* a container where the tracker does not expect one (key position, or nesting the writers never produce) */
}
static inline void mon_slot(int kind, unsigned long val)
{
  int t = g_mon.t;
  if (g_mon.indef[t]) g_mon.done[t]++;
  else if (g_mon.need[t] == 0) g_mon.bad = 1;
  else { g_mon.need[t]--; g_mon.done[t]++; }
}
static inline void mon_cascade(void)
{
  if (g_mon.t > 0 && !g_mon.indef[g_mon.t] && g_mon.need[g_mon.t] == 0) g_mon.t--;
  if (g_mon.t > 0 && !g_mon.indef[g_mon.t] && g_mon.need[g_mon.t] == 0) g_mon.t--;
  if (g_mon.t > 0 && !g_mon.indef[g_mon.t] && g_mon.need[g_mon.t] == 0) g_mon.t--;
  if (g_mon.t > 0 && !g_mon.indef[g_mon.t] && g_mon.need[g_mon.t] == 0) g_mon.t--;
}
#ifdef WITH_MON
#define MON(x) x
#else
#define MON(x)
#endif
static inline void mon_leaf(int kind, unsigned long val) { kt_leaf(kind, val); MON(mon_slot(kind, val); mon_cascade();) }
static inline void mon_open(unsigned long n, _Bool ismap, _Bool indef)
{
  kt_open(n, ismap, indef);
#ifndef WITH_MON
  return;
#endif
  mon_slot(indef ? K_IARRAY : (ismap ? K_MAP : K_ARRAY), n);
  if (g_mon.t + 1 >= MAXD) { g_mon.bad = 1; return; }
  if (n >= (1UL << 62)) { g_mon.bad = 1; return; }
  g_mon.t++;
  g_mon.need[g_mon.t] = ismap ? 2 * n : n; g_mon.done[g_mon.t] = 0; g_mon.indef[g_mon.t] = indef; g_mon.ismap[g_mon.t] = ismap;
  mon_cascade();
}
static inline void mon_break(void)
{
#ifndef WITH_MON
  kt_over = 1; return;   /* writers of single items never emit a stop code */
#endif
  if (g_mon.t < 0 || g_mon.t >= MAXD) { g_mon.bad = 1; return; }
  if (!g_mon.indef[g_mon.t] || g_mon.t == 0) { g_mon.bad = 1; return; }
  if (g_mon.ismap[g_mon.t] && (g_mon.done[g_mon.t] & 1)) { g_mon.bad = 1; return; }
  g_mon.t--;
  mon_cascade();
}
_Bool nondet_bool(void);
/* C16 units: the sink behind the encoder may fail at any operation (fault = nondeterminism) */
#ifdef ENC_MAY_FAIL
#define MAYFAIL() if (nondet_bool()) { g_exc = EXC_CborOutputException; return 0; }
#else
#define MAYFAIL()
#endif
static inline unsigned long acct(unsigned long n) { g_bytes += n; return n; }

#define ENC_OP(name, T, body) unsigned long name(struct CdnsEncoder *this, T value) { if (g_exc) return 0; MAYFAIL() body }
unsigned long CdnsEncoder__write_map_start(struct CdnsEncoder *this, unsigned long n) { if (g_exc) return 0; MAYFAIL() mon_open(n, 1, 0); return acct(HL(n)); }
unsigned long CdnsEncoder__write_array_start(struct CdnsEncoder *this, unsigned long n) { if (g_exc) return 0; MAYFAIL() mon_open(n, 0, 0); return acct(HL(n)); }
unsigned long CdnsEncoder__write_indef_array_start(struct CdnsEncoder *this) { if (g_exc) return 0; MAYFAIL() mon_open(0, 0, 1); return acct(1); }
unsigned long CdnsEncoder__write_indef_map_start(struct CdnsEncoder *this) { if (g_exc) return 0; mon_open(0, 1, 1); return acct(1); }
unsigned long CdnsEncoder__write_break(struct CdnsEncoder *this) { if (g_exc) return 0; MAYFAIL() mon_break(); return acct(1); }
ENC_OP(CdnsEncoder__write__b, _Bool, mon_leaf(K_BOOL, value); return acct(1);)
ENC_OP(CdnsEncoder__write__u8, unsigned char, mon_leaf(K_UINT, value); return acct(HL((unsigned long)value));)
ENC_OP(CdnsEncoder__write__u16, unsigned short, mon_leaf(K_UINT, value); return acct(HL((unsigned long)value));)
ENC_OP(CdnsEncoder__write__u32, unsigned int, mon_leaf(K_UINT, value); return acct(HL((unsigned long)value));)
ENC_OP(CdnsEncoder__write__u64, unsigned long, mon_leaf(K_UINT, value); return acct(HL((unsigned long)value));)
#define SIGNED_BODY { unsigned long a = value < 0 ? (unsigned long)(-1L - (long)value) : (unsigned long)value; mon_leaf(value < 0 ? K_NINT : K_UINT, a); return acct(HL(a)); }
ENC_OP(CdnsEncoder__write__i8, signed char, SIGNED_BODY)
ENC_OP(CdnsEncoder__write__i16, short, SIGNED_BODY)
ENC_OP(CdnsEncoder__write__i32, int, SIGNED_BODY)
ENC_OP(CdnsEncoder__write__i64, long, SIGNED_BODY)
unsigned long CdnsEncoder__write_textstring__p_str(struct CdnsEncoder *this, cstring *s) { if (g_exc) return 0; mon_leaf(K_TSTR, s->id); return acct(HL(s->len) + s->len); }
unsigned long CdnsEncoder__write_bytestring__p_str(struct CdnsEncoder *this, cstring *s) { if (g_exc) return 0; mon_leaf(K_BSTR, s->id); return acct(HL(s->len) + s->len); }
/* a member serialised by another writer, seen through that writer's contract: exactly one item, returns the bytes it emitted */
unsigned long enc_nested(struct CdnsEncoder *enc, unsigned long tag)
{
  if (g_exc) return 0;
  MAYFAIL()
  unsigned long n; __CPROVER_assume(n >= 1 && n < (1UL << 40));
  mon_leaf(K_NESTED, tag);
  return acct(n);
}

/* Timestamp::get_time_offset seen through its contract (ts.get_time_offset): a function of the two instants and the rate */
long __CPROVER_uninterpreted_tsoff(unsigned long, unsigned long, unsigned long, unsigned long, unsigned long);
