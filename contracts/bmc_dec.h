/* Bounded stand-in (labelled bounded, never counted as proved): the real decoder bodies on every input of at most NB bytes,
 * compared with a reference RFC 8949 item parser written here. Stream model: concrete content, one window. */
#include "rt_common.h"
#ifndef NB
#define NB 5
#endif
struct istream { _Bool eofbit, failbit, badbit; unsigned long remaining; long gcnt; };
unsigned char g_in[NB];
unsigned long g_n;            /* input length <= NB */
unsigned long g_delivered;
typedef struct { unsigned long len; unsigned char b[NB]; } cstring;
static inline cstring cstring__empty(void) { cstring s; s.len = 0; return s; }
static inline unsigned long cstring__size(cstring *s) { return s->len; }
static inline void cstring__reserve(cstring *s, unsigned long n) { }
static inline void cstring__push_back(cstring *s, char c) { if (g_exc) return; if (s->len < NB) s->b[s->len] = (unsigned char)c; s->len++; }
_Bool istream__eof(struct istream *in) { return in->eofbit; }
long istream__gcount(struct istream *in) { return in->gcnt; }
struct istream *istream__read(struct istream *in, char *buf, long n)
{
  if (g_exc) return in;
  if (!(in->eofbit || in->failbit || in->badbit)) {
    unsigned long k = (unsigned long)n <= in->remaining ? (unsigned long)n : in->remaining;
    for (unsigned long i = 0; i < NB; i++) if (i < k) buf[i] = (char)g_in[g_delivered + i];
    in->remaining -= k; g_delivered += k; in->gcnt = (long)k;
    if (k < (unsigned long)n) { in->eofbit = 1; in->failbit = 1; }
  } else { in->gcnt = 0; in->failbit = 1; }
  return in;
}

/* ---- reference (RFC 8949 section 3 / appendix C), iterative with an explicit stack of pending item counts ---- */
enum { R_OK = 0, R_END = 1, R_FMT = 2 };
#define INDEF_CNT 0xffffffffffffffffUL
static int ref_head(unsigned long p, unsigned *mt, unsigned *ai, unsigned long *arg, unsigned long *next)
{
  if (p >= g_n) return R_END;
  *mt = g_in[p] & 0xe0; *ai = g_in[p] & 0x1f; *arg = *ai; *next = p + 1;
  if (*ai >= 24 && *ai <= 27) {
    unsigned long n = 1UL << (*ai - 24);
    if (p + 1 + n > g_n) return R_END;
    unsigned long a = 0;
    for (unsigned long i = 0; i < 8; i++) if (i < n) a = (a << 8) | g_in[p + 1 + i];
    *arg = a; *next = p + 1 + n;
  }
  return R_OK;
}
/* skip exactly one data item starting at p; *end = first byte after it */
static int ref_skip(unsigned long p, unsigned long *end)
{
  unsigned long cnt[NB + 1]; _Bool ismap[NB + 1]; unsigned long seen[NB + 1];
  int sp = 0;                       /* number of open containers */
  unsigned long pending = 1;        /* items still to read at the top level */
  for (int step = 0; step < 2 * NB + 2; step++) {
    if (sp == 0 && pending == 0) { *end = p; return R_OK; }
    if (sp > 0 && cnt[sp - 1] == INDEF_CNT && p < g_n && g_in[p] == 0xff) {
      if (ismap[sp - 1] && (seen[sp - 1] & 1)) return R_FMT;
      p++; sp--;
      if (sp == 0) pending--; else if (cnt[sp - 1] != INDEF_CNT) cnt[sp - 1]--; else seen[sp - 1]++;
      /* close finished definite containers */
      while (sp > 0 && cnt[sp - 1] == 0) { sp--; if (sp == 0) pending--; else if (cnt[sp - 1] != INDEF_CNT) cnt[sp - 1]--; else seen[sp - 1]++; }
      continue;
    }
    unsigned mt, ai; unsigned long arg, nx;
    int st = ref_head(p, &mt, &ai, &arg, &nx);
    if (st) return st;
    if (ai >= 28 && ai <= 30) return R_FMT;
    _Bool leaf = 0;
    if (mt == 0x00 || mt == 0x20 || mt == 0xe0) { if (ai == 31) return R_FMT; p = nx; leaf = 1; }
    else if (mt == 0xc0) { if (ai == 31) return R_FMT; p = nx; cnt[sp] = 1; ismap[sp] = 0; seen[sp] = 0; sp++; }
    else if (mt == 0x40 || mt == 0x60) {
      if (ai != 31) { if (arg > g_n - nx) return R_END; p = nx + arg; leaf = 1; }
      else {
        p = nx;
        for (int c = 0; c < NB + 1; c++) {
          if (p >= g_n) return R_END;
          if (g_in[p] == 0xff) { p++; break; }
          unsigned m2, a2; unsigned long g2, n2;
          st = ref_head(p, &m2, &a2, &g2, &n2);
          if (st) return st;
          if (m2 != mt || a2 >= 28) return R_FMT;
          if (g2 > g_n - n2) return R_END;
          p = n2 + g2;
        }
        leaf = 1;
      }
    } else { /* array, map */
      p = nx;
      if (ai == 31) { cnt[sp] = INDEF_CNT; ismap[sp] = (mt == 0xa0); seen[sp] = 0; sp++; }
      else {
        unsigned long k = (mt == 0xa0) ? 2 * arg : arg;
        if (arg > NB) return R_END;      /* more members than input bytes: necessarily truncated */
        if (k == 0) leaf = 1; else { cnt[sp] = k; ismap[sp] = 0; seen[sp] = 0; sp++; }
      }
    }
    if (leaf) {
      if (sp == 0) pending--; else if (cnt[sp - 1] != INDEF_CNT) cnt[sp - 1]--; else seen[sp - 1]++;
      while (sp > 0 && cnt[sp - 1] == 0) { sp--; if (sp == 0) pending--; else if (cnt[sp - 1] != INDEF_CNT) cnt[sp - 1]--; else seen[sp - 1]++; }
    }
  }
  if (sp == 0 && pending == 0) { *end = p; return R_OK; }
  return R_END;
}
