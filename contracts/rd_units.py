"""Item layer, reader side (C08, C09, C01, C03-safety of the item readers): every *::read against a ghost token stream."""
import sys, os, re
sys.path.insert(0, os.path.join(os.path.dirname(os.path.abspath(__file__)), '..', 'spec'))
from driver import Unit
from ctypes_lower import LowerError
import rfc8618_maps as RFC

P = 'item_dec.h'
EXT = ['CdnsDecoder']
DEC_STUBS = ['CdnsDecoder__read_map_start', 'CdnsDecoder__read_array_start', 'CdnsDecoder__peek_type', 'CdnsDecoder__read_break',
             'CdnsDecoder__read_integer', 'CdnsDecoder__read_unsigned', 'CdnsDecoder__read_bool', 'CdnsDecoder__read_textstring',
             'CdnsDecoder__read_bytestring', 'CdnsDecoder__skip_item', 'dec_nested', 'seq_[A-Za-z0-9_]+__(push_back|clear|size|at)',
             'cstring__[a-z]+']
NESTED_RD = [(r'^[A-Za-z]+__read$', '  if (g_exc) return;\n  { __typeof__(*$P0) fresh; *$P0 = fresh; }\n  dec_nested($P1);')]
RD_GHOSTS = 'rd_depth, rd_topmap, rd_indef1, rd_indef2, rd_expect_val, rd_done1, rd_bad, rd_break_pending, rd_left1, rd_left2, rd_idx2, rd_cnt1, ' \
            'g_kseen, g_klast, g_kkind, rd_curkey, g_elast, g_eseen, g_alen, g_aseen, g_exc'


def fields_of(ast, rec):
    out = {}
    for f in ast.records[rec].get('inner', []):
        if isinstance(f, dict) and f.get('kind') == 'FieldDecl':
            out[f['name']] = f['type'].get('desugaredQualType') or f['type']['qualType']
    return out


def field_facts(ast, L, rec, this):
    """per RFC row: (key, mandatory, cls, lvalue, value_is (C expr, valid when seen), reset (C expr, valid when never seen))"""
    fl = fields_of(ast, rec)
    rows = RFC.MAPS[rec]
    names = [r[0] for r in rows]
    if sorted(names) != sorted(fl):
        raise LowerError('RFC table and struct %s disagree: %s vs %s' % (rec, sorted(names), sorted(fl)))
    out = []
    for fname, key, kind, mand in rows:
        cls, t = L.types.classify(fl[fname])
        lv = '%s->%s' % (this, fname)
        opt = cls == 'opt'
        val = lv + '.val' if opt else lv
        vt = L.types.ctype(t.args[0]) if opt else L.types.ctype(t)
        has = (lv + '.has') if opt else '1'
        if kind in ('uint', 'bool', 'int', 'offset'):
            kk = {'uint': 'K_UINT', 'bool': 'K_BOOL', 'int': 'K_INT', 'offset': 'K_UINT'}[kind]
            if kind == 'offset':
                # read() parks the raw offset in the seconds member of a zero Timestamp; CdnsBlockRead::read resolves it against earliest_time
                vis = '(%s && g_kkind == K_UINT && %s.m_secs == g_klast && %s.m_ticks == 0)' % (has, val, val)
            else:
                vis = '(%s && g_kkind == %s && %s == (%s)g_klast)' % (has, kk, val, vt)
        elif kind in ('tstr', 'bstr'):
            vis = '(%s && g_kkind == K_%s && %s.id == g_klast)' % (has, kind.upper(), val)
        elif kind.startswith('map:') or kind == 'time':
            vis = '(%s && g_kkind == K_NESTED)' % has
        elif kind.startswith('array:'):
            ek = kind[6:]
            et = L.types.ctype(t.args[0])
            if ek == 'uint':
                ev = '%s.wv == (%s)g_elast' % (lv, et)
            elif ek in ('tstr', 'bstr'):
                ev = '%s.wv.id == g_elast' % lv
            else:
                ev = '1'
            vis = '(g_kkind == K_ARRAY && g_aseen && %s.n == g_alen && ((g_Ei < %s.n && g_Ei == %s.wi) ==> (g_eseen && %s)))' % (lv, lv, lv, ev)
        else:
            raise LowerError('kind %s' % kind)
        reset = ('!%s.has' % lv) if opt else ('%s.n == 0' % lv if (cls in ('vec', 'deq') and not mand) else '1')
        out.append((fname, key, mand, cls, lv, vis, reset))
    return out


def reader_contract(rec):
    def gen(ast, L, tf):
        c = '''
__CPROVER_requires(__CPROVER_w_ok($this, sizeof(*$this)) && g_exc == 0 && RD_FRESH)
__CPROVER_assigns(__CPROVER_object_whole($this), ''' + RD_GHOSTS + ''')
__CPROVER_ensures(g_exc == 0 || g_exc == EXC_CdnsDecoderException || g_exc == EXC_CdnsDecoderEnd)
__CPROVER_ensures(g_exc == 0 ==> RD_MAP_DONE)
'''
        for fname, key, mand, cls, lv, vis, reset in field_facts(ast, L, rec, '$this'):
            if mand:
                c += '__CPROVER_ensures((g_exc == 0 && g_K == %d) ==> (g_kseen > 0 && %s))\n' % (key, vis)
            else:
                c += '__CPROVER_ensures((g_exc == 0 && g_K == %d) ==> (g_kseen > 0 ? %s : %s))\n' % (key, vis, reset)
        return c
    return gen


def reader_loops(rec):
    def gen(ast, L, tf):
        names = dict((n, t) for n, t in tf.locals)
        if 'indef' not in names or 'length' not in names:
            raise LowerError('%s: reader loop locals indef/length not found' % tf.cname)
        flags = [n for n, t in tf.locals if n.startswith('is_')]
        inv = ['g_exc == 0 && RD_IN_MAP && (rd_indef1 ? indef : (!indef && length == rd_left1))', 'g_kseen <= rd_cnt1 && rd_cnt1 <= (1UL << 60)']
        for fname, key, mand, cls, lv, vis, reset in field_facts(ast, L, rec, 'this'):
            inv.append('g_K == %d ==> (g_kseen > 0 ? %s : %s)' % (key, vis, reset))
            if mand:
                fl = 'is_' + fname
                if fl not in names:
                    raise LowerError('%s: no presence flag %s for mandatory member' % (tf.cname, fl))
                inv.append('g_K == %d ==> (%s == (g_kseen > 0))' % (key, fl))
        txt = '\n  __CPROVER_assigns(__CPROVER_object_whole(this), length, %s, %s)\n' % (', '.join(flags) if flags else 'length', RD_GHOSTS)
        for i in inv:
            txt += '  __CPROVER_loop_invariant(%s)\n' % i
        return {1: txt}
    return gen


def lifted_loops(ast, L, tf, lifted):
    """loop contracts of the read_array instances lifted from this reader"""
    out = {}
    lam = {}
    for lf in lifted:
        m = re.search(r'(seq_\w+)__push_back\(&this->(\w+)', lf.body)
        if 'lambda' in lf.cname and m:
            lam[lf.cname] = (m.group(1), m.group(2))
    for lf in lifted:
        if 'read_array' not in lf.cname:
            continue
        m = re.search(r'(\w+__lambda\d+)\(cap, this\)', lf.body)
        if not m or m.group(1) not in lam:
            raise LowerError('cannot relate %s to its callback' % lf.cname)
        seqt, member = lam[m.group(1)]
        lv = 'cap->' + member
        if seqt in ('seq_u8', 'seq_u16', 'seq_u32', 'seq_u64'):
            ev = '%s.wv == (__typeof__(%s.wv))g_elast' % (lv, lv)
        elif seqt == 'seq_str':
            ev = '%s.wv.id == g_elast' % lv
        else:
            ev = '1'
        out[lf.cname] = {1: '''
  __CPROVER_assigns(length, %(lv)s, %(G)s)
  __CPROVER_loop_invariant(g_exc == 0 && !rd_bad && !rd_break_pending && rd_topmap && !rd_done1)
  __CPROVER_loop_invariant(indef ? (rd_depth == 2 && rd_indef2) : (length > 0 ? (rd_depth == 2 && !rd_indef2 && rd_left2 == length) : (rd_depth == 1 && !rd_expect_val)))
  __CPROVER_loop_invariant(%(lv)s.n == rd_idx2)
  __CPROVER_loop_invariant((rd_depth == 1 && rd_curkey == g_K) ==> (g_aseen && g_alen == rd_idx2))
  __CPROVER_loop_invariant((rd_curkey == g_K && g_Ei < rd_idx2 && g_Ei == %(lv)s.wi) ==> (g_eseen && %(ev)s))
  __CPROVER_loop_invariant(__CPROVER_loop_entry(rd_indef1) == rd_indef1 && (rd_indef1 || rd_depth == 2 ? rd_left1 == __CPROVER_loop_entry(rd_left1) : rd_left1 + 1 == __CPROVER_loop_entry(rd_left1)))
  __CPROVER_loop_invariant(rd_curkey == __CPROVER_loop_entry(rd_curkey) && g_kseen == __CPROVER_loop_entry(g_kseen) && g_klast == __CPROVER_loop_entry(g_klast) && g_kkind == __CPROVER_loop_entry(g_kkind))
  __CPROVER_loop_invariant(rd_curkey != g_K ==> (g_eseen == __CPROVER_loop_entry(g_eseen) && g_elast == __CPROVER_loop_entry(g_elast) && g_aseen == __CPROVER_loop_entry(g_aseen) && g_alen == __CPROVER_loop_entry(g_alen)))
''' % {'lv': lv, 'G': RD_GHOSTS, 'ev': ev}}
    return out


UNITS = []


def R(rec, props=('C08', 'C09', 'C01', 'C03'), inline_reset=True, **kw):
    inl = [(rec + '::reset', None)] if inline_reset else []
    inl += kw.pop('inline', [])
    UNITS.append(Unit('r.' + rec, (rec + '::read', None), contract=reader_contract(rec), loops=reader_loops(rec), prelude=P,
                      extern_records=EXT, stubs=DEC_STUBS, gen_stubs=kw.pop('gen_stubs', []) + NESTED_RD, inline=inl,
                      setup='  struct %s obj; struct CdnsDecoder dec;\n  rd_init();\n' % rec, args=['&obj', '&dec'], props=list(props), timeout=900,
                      lifted_loops=lifted_loops, auto_inline=[r'[A-Za-z]+__ctor__\w+', r'[A-Za-z]+__default', r'[A-Za-z]+__reset'],
                      extra_c='struct seq_u8 g_OpCodesDefault; struct seq_u16 g_RrTypesDefault;\n' if rec in ('StorageParameters', 'BlockParameters', 'FilePreamble') else '',
                      split=rec in ('CollectionParameters', 'StorageParameters', 'QueryResponse', 'QueryResponseSignature', 'FilePreamble'),
                      tier='thorough' if rec in ('CollectionParameters', 'StorageParameters', 'FilePreamble') else 'quick',
                      post='  if (g_exc != 0) { CANARY("decoder exception reachable"); }',
                      note='map with any number of entries, any keys (unknown, negative, repeated), definite or indefinite, any member order; '
                           'every decoder call may raise a format / end-of-input error', **kw))


PRE = ('StorageHints', 'StorageParameters', 'CollectionParameters', 'BlockParameters', 'FilePreamble')
for rec in ['StorageHints', 'ClassType', 'Question', 'RR', 'QueryResponseSignature', 'MalformedMessageData', 'ResponseProcessingData',
            'QueryResponseExtended', 'BlockPreamble', 'BlockStatistics', 'QueryResponse', 'AddressEventCount', 'MalformedMessage',
            'StorageParameters', 'CollectionParameters', 'BlockParameters', 'FilePreamble']:
    R(rec, props=('C08', 'C03') + (('C09',) if rec in PRE else ('C01',)))

TRUSTED_BASE = [
    'A13(ii) byte-layer contracts of CdnsDecoder (dec.* units) reduced to a token stream: each read call delivers one value of the kind asked for or raises',
    'A4 optional, A5 string (length, content identity), A6 vector as abstract sequence with one watched element',
    'callee readers replaced by executable stubs of their contract (consume exactly one item; result arbitrary), each discharged in its own unit r.<Struct>',
    'RFC 8618 tables in /verif/spec/rfc8618_maps.py', 'cdns2c lowering incl. lambda lifting of read_array call sites; CBMC 6.11 dfcc; cadical',
]
ASSUMPTIONS = ['container sizes < 2^60', 'A13(iii) distinct-key map steps commute because each step\'s frame is its own member']
