"""Item layer, reader side (C08, C09, C01, C03-safety of the item readers): every *::read against a ghost token stream."""
import sys, os, re
sys.path.insert(0, os.path.join(os.path.dirname(os.path.abspath(__file__)), '..', 'spec'))
from driver import Unit
from ctypes_lower import LowerError
import rfc8618_maps as RFC

P = 'item_dec.h'
EXT = ['CdnsDecoder']
DEC_STUBS = ['CdnsDecoder__read_map_start', 'CdnsDecoder__read_array_start', 'CdnsDecoder__peek_type', 'CdnsDecoder__read_break',
             'CdnsDecoder__read_integer', 'CdnsDecoder__read_unsigned', 'CdnsDecoder__read_bool', 'CdnsDecoder__read_textstring',
             'CdnsDecoder__read_bytestring', 'CdnsDecoder__skip_item', 'dec_nested', 'seq_[A-Za-z0-9_]+__(push_back|clear|size|at)',
             'cstring__[a-z]+']
NESTED_RD = [(r'^[A-Za-z]+__read$', '  if (g_exc) return;\n  { __typeof__(*$P0) fresh; *$P0 = fresh; }\n  dec_nested($P1);')]
RD_GHOSTS = 'rd_depth, rd_topmap, rd_indef1, rd_indef2, rd_expect_val, rd_done1, rd_bad, rd_break_pending, rd_left1, rd_left2, rd_idx2, rd_cnt1, ' \
            'g_kseen, g_klast, g_kkind, rd_curkey, g_elast, g_eseen, g_alen, g_aseen, g_exc, g_raised'


def fields_of(ast, rec):
    out = {}
    for f in ast.records[rec].get('inner', []):
        if isinstance(f, dict) and f.get('kind') == 'FieldDecl':
            out[f['name']] = f['type'].get('desugaredQualType') or f['type']['qualType']
    return out


def field_facts(ast, L, rec, this):
    """per RFC row: (key, mandatory, cls, lvalue, value_is (C expr, valid when seen), reset (C expr, valid when never seen))"""
    fl = fields_of(ast, rec)
    rows = RFC.MAPS[rec]
    names = [r[0] for r in rows]
    if sorted(names) != sorted(fl):
        raise LowerError('RFC table and struct %s disagree: %s vs %s' % (rec, sorted(names), sorted(fl)))
    out = []
    for fname, key, kind, mand in rows:
        cls, t = L.types.classify(fl[fname])
        lv = '%s->%s' % (this, fname)
        opt = cls == 'opt'
        val = lv + '.val' if opt else lv
        vt = L.types.ctype(t.args[0]) if opt else L.types.ctype(t)
        has = (lv + '.has') if opt else '1'
        if kind in ('uint', 'bool', 'int', 'offset'):
            kk = {'uint': 'K_UINT', 'bool': 'K_BOOL', 'int': 'K_INT', 'offset': 'K_UINT'}[kind]
            if kind == 'offset':
                # read() parks the raw offset in the seconds member of a zero Timestamp; CdnsBlockRead::read resolves it against earliest_time
                vis = '(%s && g_kkind == K_UINT && %s.m_secs == g_klast && %s.m_ticks == 0)' % (has, val, val)
            else:
                vis = '(%s && g_kkind == %s && %s == (%s)g_klast)' % (has, kk, val, vt)
        elif kind in ('tstr', 'bstr'):
            vis = '(%s && g_kkind == K_%s && %s.id == g_klast)' % (has, kind.upper(), val)
        elif kind.startswith('map:') or kind == 'time':
            vis = '(%s && g_kkind == K_NESTED)' % has
        elif kind.startswith('array:'):
            ek = kind[6:]
            et = L.types.ctype(t.args[0])
            if ek == 'uint':
                ev = '%s.wv == (%s)g_elast' % (lv, et)
            elif ek in ('tstr', 'bstr'):
                ev = '%s.wv.id == g_elast' % lv
            else:
                ev = '1'
            vis = '(g_kkind == K_ARRAY && g_aseen && %s.n == g_alen && ((g_Ei < %s.n && g_Ei == %s.wi) ==> (g_eseen && %s)))' % (lv, lv, lv, ev)
        else:
            raise LowerError('kind %s' % kind)
        reset = ('!%s.has' % lv) if opt else ('%s.n == 0' % lv if (cls in ('vec', 'deq') and not mand) else '1')
        out.append((fname, key, mand, cls, lv, vis, reset))
    return out


def reader_contract(rec):
    def gen(ast, L, tf):
        c = '''
__CPROVER_requires(__CPROVER_w_ok($this, sizeof(*$this)) && g_exc == 0 && RD_FRESH && !g_raised)
__CPROVER_assigns(__CPROVER_object_whole($this), ''' + RD_GHOSTS + ''')
__CPROVER_ensures(g_exc == 0 || g_exc == EXC_CdnsDecoderException || g_exc == EXC_CdnsDecoderEnd)
__CPROVER_ensures(g_exc == 0 ==> RD_MAP_DONE)
__CPROVER_ensures(g_raised ==> g_exc != 0)
'''
        for fname, key, mand, cls, lv, vis, reset in field_facts(ast, L, rec, '$this'):
            if mand:
                c += '__CPROVER_ensures((g_exc == 0 && g_K == %d) ==> (g_kseen > 0 && %s))\n' % (key, vis)
            else:
                c += '__CPROVER_ensures((g_exc == 0 && g_K == %d) ==> (g_kseen > 0 ? %s : %s))\n' % (key, vis, reset)
        return c
    return gen


def reader_loops(rec):
    def gen(ast, L, tf):
        names = dict((n, t) for n, t in tf.locals)
        if 'indef' not in names or 'length' not in names:
            raise LowerError('%s: reader loop locals indef/length not found' % tf.cname)
        flags = [n for n, t in tf.locals if n.startswith('is_')]
        inv = ['g_exc == 0 && !g_raised && RD_IN_MAP && (rd_indef1 ? indef : (!indef && length == rd_left1))', 'g_kseen <= rd_cnt1 && rd_cnt1 <= (1UL << 60)']
        for fname, key, mand, cls, lv, vis, reset in field_facts(ast, L, rec, 'this'):
            inv.append('g_K == %d ==> (g_kseen > 0 ? %s : %s)' % (key, vis, reset))
            if mand:
                fl = 'is_' + fname
                if fl not in names:
                    raise LowerError('%s: no presence flag %s for mandatory member' % (tf.cname, fl))
                inv.append('g_K == %d ==> (%s == (g_kseen > 0))' % (key, fl))
        txt = '\n  __CPROVER_assigns(__CPROVER_object_whole(this), length, %s, %s)\n' % (', '.join(flags) if flags else 'length', RD_GHOSTS)
        for i in inv:
            txt += '  __CPROVER_loop_invariant(%s)\n' % i
        return {1: txt}
    return gen


def lifted_loops(ast, L, tf, lifted):
    """loop contracts of the read_array instances lifted from this reader"""
    out = {}
    lam = {}
    for lf in lifted:
        m = re.search(r'(seq_\w+)__push_back\(&this->(\w+)', lf.body)
        if 'lambda' in lf.cname and m:
            lam[lf.cname] = (m.group(1), m.group(2))
    for lf in lifted:
        if 'read_array' not in lf.cname:
            continue
        m = re.search(r'(\w+__lambda\d+)\(cap, this\)', lf.body)
        if not m or m.group(1) not in lam:
            raise LowerError('cannot relate %s to its callback' % lf.cname)
        seqt, member = lam[m.group(1)]
        lv = 'cap->' + member
        if seqt in ('seq_u8', 'seq_u16', 'seq_u32', 'seq_u64'):
            ev = '%s.wv == (__typeof__(%s.wv))g_elast' % (lv, lv)
        elif seqt == 'seq_str':
            ev = '%s.wv.id == g_elast' % lv
        else:
            ev = '1'
        out[lf.cname] = {1: '''
  __CPROVER_assigns(length, %(lv)s, %(G)s)
  __CPROVER_loop_invariant(g_exc == 0 && !g_raised && !rd_bad && !rd_break_pending && rd_topmap && !rd_done1)
  __CPROVER_loop_invariant(indef ? (rd_depth == 2 && rd_indef2) : (length > 0 ? (rd_depth == 2 && !rd_indef2 && rd_left2 == length) : (rd_depth == 1 && !rd_expect_val)))
  __CPROVER_loop_invariant(%(lv)s.n == rd_idx2)
  __CPROVER_loop_invariant((rd_depth == 1 && rd_curkey == g_K) ==> (g_aseen && g_alen == rd_idx2))
  __CPROVER_loop_invariant((rd_curkey == g_K && g_Ei < rd_idx2 && g_Ei == %(lv)s.wi) ==> (g_eseen && %(ev)s))
  __CPROVER_loop_invariant(__CPROVER_loop_entry(rd_indef1) == rd_indef1 && (rd_indef1 || rd_depth == 2 ? rd_left1 == __CPROVER_loop_entry(rd_left1) : rd_left1 + 1 == __CPROVER_loop_entry(rd_left1)))
  __CPROVER_loop_invariant(rd_curkey == __CPROVER_loop_entry(rd_curkey) && g_kseen == __CPROVER_loop_entry(g_kseen) && g_klast == __CPROVER_loop_entry(g_klast) && g_kkind == __CPROVER_loop_entry(g_kkind))
  __CPROVER_loop_invariant(rd_curkey != g_K ==> (g_eseen == __CPROVER_loop_entry(g_eseen) && g_elast == __CPROVER_loop_entry(g_elast) && g_aseen == __CPROVER_loop_entry(g_aseen) && g_alen == __CPROVER_loop_entry(g_alen)))
''' % {'lv': lv, 'G': RD_GHOSTS, 'ev': ev}}
    return out


def instance_info(lifted):
    """[(instance cname, lambda cname, seq type, member)] for the read_array instances lifted from a reader"""
    lam = {}
    for lf in lifted:
        m = re.search(r'(seq_\w+)__push_back\(&this->(\w+)', lf.body)
        if 'lambda' in lf.cname and m:
            lam[lf.cname] = (m.group(1), m.group(2))
    out = []
    for lf in lifted:
        if 'read_array' not in lf.cname:
            continue
        m = re.search(r'(\w+__lambda\d+)\(cap, this\)', lf.body)
        if m and m.group(1) in lam:
            out.append((lf.cname, m.group(1)) + lam[m.group(1)])
    return out


def elem_val(seqt, lv):
    """relation between the watched element and the value delivered for it (C conversion to the element type)"""
    if seqt in ('seq_u8', 'seq_u16', 'seq_u32', 'seq_u64'):
        return '%s.wv == (__typeof__(%s.wv))g_elast' % (lv, lv)
    if seqt == 'seq_str':
        return '%s.wv.id == g_elast' % lv
    return None


def instance_stubs(ast, L, tf, lifted):
    """executable contract of each read_array instance (discharged in its own unit ra.<Struct>.<k>): reads one array value into the member"""
    out = {}
    for iname, lname, seqt, member in instance_info(lifted):
        lv = 'cap->' + member
        ev = elem_val(seqt, lv)
        out[iname] = '''  if (g_exc) return;
  if (nondet_bool()) { g_exc = nondet_bool() ? EXC_CdnsDecoderException : EXC_CdnsDecoderEnd; return; }
  __CPROVER_assert(rd_depth == 1 && rd_topmap && rd_expect_val && !rd_break_pending && !rd_bad, "read_array instance called at a value position");
  __CPROVER_assert(%(lv)s.n == 0, "read_array instance called on a cleared list");
  { unsigned long n = nondet_ulong(); __CPROVER_assume(n < (1UL << 60));
    __typeof__(%(lv)s.wv) fresh; %(lv)s.n = n; %(lv)s.wv = fresh;
    if (rd_curkey == g_K) { g_klast = n; g_kkind = K_ARRAY; g_aseen = 1; g_alen = n;
      if (g_Ei < n && g_Ei == %(lv)s.wi) { g_eseen = 1; g_elast = nondet_ulong(); %(setv)s } }
    rd_idx2 = n;
    rd_value_done(); }''' % {'lv': lv, 'setv': ('__CPROVER_assume(%s);' % ev) if ev else ''}
    return out


def instance_contract(k):
    def gen(ast, L, tf):
        # tf is the instance; its callback is the only remaining lifted helper
        info = [x for x in instance_info(L.lifted + [tf]) if x[0] == tf.cname]
        if not info:
            raise LowerError('cannot identify the member filled by ' + tf.cname)
        iname, lname, seqt, member = info[0]
        lv = '$1->' + member
        ev = elem_val(seqt, lv)
        c = '''
__CPROVER_requires(__CPROVER_w_ok($1, sizeof(*$1)) && g_exc == 0)
__CPROVER_requires(rd_depth == 1 && rd_topmap && rd_expect_val && !rd_break_pending && !rd_bad && !rd_done1 && (rd_indef1 || rd_left1 > 0) && rd_cnt1 < (1UL << 60))
__CPROVER_requires(%(lv)s.n == 0)
__CPROVER_assigns(%(lv)s, ''' + RD_GHOSTS + ''')
__CPROVER_ensures(g_exc == 0 || g_exc == EXC_CdnsDecoderException || g_exc == EXC_CdnsDecoderEnd)
__CPROVER_ensures((g_raised && !@RZ0) ==> g_exc != 0)
__CPROVER_ensures(g_exc == 0 ==> (rd_depth == 1 && rd_topmap && !rd_expect_val && !rd_break_pending && !rd_bad && !rd_done1 && rd_cnt1 == @C0 + 1 && (rd_indef1 ? rd_left1 == @L0 : rd_left1 + 1 == @L0)))
__CPROVER_ensures(g_exc == 0 ==> (rd_curkey == @K0 && g_kseen == @S0 && %(lv)s.n == rd_idx2))
__CPROVER_ensures((g_exc == 0 && rd_curkey == g_K) ==> (g_kkind == K_ARRAY && g_aseen && g_alen == %(lv)s.n))
'''
        if ev:
            c += '__CPROVER_ensures((g_exc == 0 && rd_curkey == g_K && g_Ei < %(lv)s.n && g_Ei == %(lv)s.wi) ==> (g_eseen && %(ev)s))\n'
        return c % {'lv': lv, 'ev': ev}
    return gen


def instance_loops(ast, L, tf):
    info = [x for x in instance_info(L.lifted + [tf]) if x[0] == tf.cname]
    iname, lname, seqt, member = info[0]
    lv = 'cap->' + member
    ev = elem_val(seqt, lv)
    txt = '''
  __CPROVER_assigns(length, %(lv)s, %(G)s)
  __CPROVER_loop_invariant(g_exc == 0 && !rd_bad && !rd_break_pending && rd_topmap && !rd_done1 && (g_raised != 0) == (@RZ0 != 0))
  __CPROVER_loop_invariant(indef ? (rd_depth == 2 && rd_indef2) : (length > 0 ? (rd_depth == 2 && !rd_indef2 && rd_left2 == length) : (rd_depth == 1 && !rd_expect_val)))
  __CPROVER_loop_invariant(%(lv)s.n == rd_idx2 && rd_idx2 <= (1UL << 60))
  __CPROVER_loop_invariant(rd_depth == 2 ? (rd_expect_val && rd_cnt1 == @C0 && rd_left1 == @L0) : (rd_cnt1 == @C0 + 1 && (rd_indef1 ? rd_left1 == @L0 : rd_left1 + 1 == @L0)))
  __CPROVER_loop_invariant(rd_curkey == @K0 && g_kseen == @S0 && rd_indef1 == @I0)
  __CPROVER_loop_invariant(rd_curkey == g_K ==> g_kkind == K_ARRAY)
  __CPROVER_loop_invariant((rd_depth == 1 && rd_curkey == g_K) ==> (g_aseen && g_alen == rd_idx2))
''' % {'lv': lv, 'G': RD_GHOSTS}
    if ev:
        txt += '  __CPROVER_loop_invariant((rd_curkey == g_K && g_Ei < rd_idx2 && g_Ei == %s.wi) ==> (g_eseen && %s))\n' % (lv, ev)
    return {1: txt}


GH_I = [('_Bool', 'RZ0', 'g_raised'), ('unsigned long', 'C0', 'rd_cnt1'), ('unsigned long', 'L0', 'rd_left1'), ('long', 'K0', 'rd_curkey'), ('unsigned long', 'S0', 'g_kseen'), ('_Bool', 'I0', 'rd_indef1')]
UNITS = []


def RA(rec, k, props):
    """unit for the k-th read_array instance of rec::read"""
    UNITS.append(Unit('ra.%s.%d' % (rec, k), (rec + '::read', None), lifted_target=r'CdnsDecoder__read_array__%s__read__%d' % (rec, k),
                      contract=instance_contract(k), loops=instance_loops, prelude=P, extern_records=EXT, stubs=DEC_STUBS, gen_stubs=NESTED_RD,
                      arrays_uf=False, ghost=GH_I, auto_inline=[r'[A-Za-z]+__ctor__\w+', r'[A-Za-z]+__default', r'[A-Za-z]+__reset'],
                      extra_c='struct seq_u8 g_OpCodesDefault; struct seq_u16 g_RrTypesDefault;\n',
                      setup='  static struct %s obj; struct CdnsDecoder dec;\n  __CPROVER_assume(rd_depth == 1 && rd_topmap && rd_expect_val && !rd_break_pending && !rd_bad && !rd_done1 && (rd_indef1 || rd_left1 > 0) && rd_cnt1 < (1UL << 60));\n' % rec,
                      args=['&dec', '&obj'], props=list(props), timeout=900,
                      post='  if (g_exc != 0) { CANARY("decoder exception reachable"); }',
                      note='the real CdnsDecoder::read_array body with the reader\'s callback bound to it: array of any length, definite or '
                           'indefinite; the list receives exactly the delivered elements in order'))


def R(rec, props=('C08', 'C09', 'C01', 'C03'), inline_reset=True, **kw):
    inl = [(rec + '::reset', None)] if inline_reset else []
    inl += kw.pop('inline', [])
    UNITS.append(Unit('r.' + rec, (rec + '::read', None), contract=reader_contract(rec), loops=reader_loops(rec), prelude=P,
                      extern_records=EXT, stubs=DEC_STUBS, gen_stubs=kw.pop('gen_stubs', []) + NESTED_RD, inline=inl,
                      setup='  struct %s obj; struct CdnsDecoder dec;\n  rd_init(); g_raised = 0;\n' % rec, args=['&obj', '&dec'], props=list(props) + ['C05'], timeout=1800, weight=3 if rec in LISTY else 1,
                      arrays_uf=False, lifted_loops=None if rec in LISTY else lifted_loops, lifted_stub=instance_stubs if rec in LISTY else None, auto_inline=[r'[A-Za-z]+__ctor__\w+', r'[A-Za-z]+__default', r'[A-Za-z]+__reset'],
                      extra_c='struct seq_u8 g_OpCodesDefault; struct seq_u16 g_RrTypesDefault;\n' if rec in ('StorageParameters', 'BlockParameters', 'FilePreamble') else '',
                      split=False, tier='quick',
                      post='  if (g_exc != 0) { CANARY("decoder exception reachable"); }',
                      note='map with any number of entries, any keys (unknown, negative, repeated), definite or indefinite, any member order; '
                           'every decoder call may raise a format / end-of-input error', **kw))


LISTY = {'StorageParameters': 2, 'CollectionParameters': 3, 'FilePreamble': 1}
PRE = ('StorageHints', 'StorageParameters', 'CollectionParameters', 'BlockParameters', 'FilePreamble')
for rec in ['StorageHints', 'ClassType', 'Question', 'RR', 'QueryResponseSignature', 'MalformedMessageData', 'ResponseProcessingData',
            'QueryResponseExtended', 'BlockPreamble', 'BlockStatistics', 'QueryResponse', 'AddressEventCount', 'MalformedMessage',
            'StorageParameters', 'CollectionParameters', 'BlockParameters', 'FilePreamble']:
    R(rec, props=('C08', 'C03') + (('C09',) if rec in PRE else ('C01',)))
for rec, n in LISTY.items():
    for k in range(1, n + 1):
        RA(rec, k, ('C08', 'C09', 'C03', 'C05'))

# ---------------------------------------------------------------- CdnsReader::read_block (C05: a decoder error is never swallowed)
RB_C = '''
__CPROVER_requires(__CPROVER_w_ok($this, sizeof(*$this)) && __CPROVER_w_ok($1, 1) && g_exc == 0 && !g_raised)
__CPROVER_requires($this->m_blocks_read < (1UL << 62))
__CPROVER_assigns(*$1, $this->m_indef_blocks, $this->m_blocks_count, $this->m_blocks_read, ''' + RD_GHOSTS + ''')
__CPROVER_ensures(g_exc == 0 || g_exc == EXC_CdnsDecoderException || g_exc == EXC_CdnsDecoderEnd)
__CPROVER_ensures(g_raised ==> g_exc != 0)
__CPROVER_ensures((g_exc == 0 && *$1) ==> ($this->m_blocks_read == @R0 && !$this->m_indef_blocks && $this->m_blocks_read == $this->m_blocks_count))
__CPROVER_ensures((g_exc == 0 && !*$1) ==> $this->m_blocks_read == @R0 + 1)
'''
UNITS.append(Unit('rdr.read_block', ('CdnsReader::read_block', None), contract=RB_C, prelude=P, extern_records=EXT, stubs=DEC_STUBS,
                  gen_stubs=[(r'^CdnsBlockRead__read$', '  dec_nested($P1);'), (r'^CdnsBlockRead__ctor__v$', '  struct CdnsBlockRead b; return b;')],
                  ghost=[('unsigned long', 'R0', '$this->m_blocks_read')],
                  setup='  static struct CdnsReader obj; _Bool a_eof;\n  rd_init(); g_raised = 0;\n  rd_depth = 1; rd_topmap = 0; rd_indef1 = obj.m_indef_blocks; rd_left1 = obj.m_blocks_count - obj.m_blocks_read;\n'
                        '  __CPROVER_assume(obj.m_blocks_read < (1UL << 62) && (obj.m_indef_blocks || obj.m_blocks_read <= obj.m_blocks_count));\n',
                  args=['&obj', '&a_eof'], props=['C05', 'C03'], timeout=600,
                  post='  if (g_exc != 0) { CANARY("decoder exception reachable"); }',
                  note='every exception raised by the decoder while looking for the next block or reading it propagates: a truncated file is never reported as a clean end; '
                       'a block is returned (counter + 1) only after CdnsBlockRead::read returned normally'))

ILI_C = '''
__CPROVER_requires(__CPROVER_w_ok($this, sizeof(*$this)) && g_exc == 0 && RD_FRESH)
__CPROVER_assigns(__CPROVER_object_whole($this), ''' + RD_GHOSTS + ''')
__CPROVER_ensures(g_exc == 0 || g_exc == EXC_CdnsDecoderException || g_exc == EXC_CdnsDecoderEnd)
__CPROVER_ensures(g_exc == 0 ==> (RD_ARRAY_DONE && $this->list.n == rd_cnt1))
__CPROVER_ensures((g_exc == 0 && g_Ei < $this->list.n && g_Ei == $this->list.wi) ==> (g_eseen && $this->list.wv == (unsigned int)g_elast))
'''
ILI_L = '''
  __CPROVER_assigns(__CPROVER_object_whole($this), $L2, ''' + RD_GHOSTS + ''')
  __CPROVER_loop_invariant(g_exc == 0 && rd_depth == 1 && !rd_topmap && !rd_bad && !rd_done1 && !rd_break_pending && (rd_indef1 ? $L1 : (!$L1 && $L2 == rd_left1)))
  __CPROVER_loop_invariant($this->list.n == rd_cnt1 && rd_cnt1 <= (1UL << 60))
  __CPROVER_loop_invariant((g_Ei < $this->list.n && g_Ei == $this->list.wi) ==> (g_eseen && $this->list.wv == (unsigned int)g_elast))
'''
UNITS.append(Unit('r.IndexListItem', ('IndexListItem::read', None), contract=ILI_C, loops={1: ILI_L}, prelude=P, extern_records=EXT, stubs=DEC_STUBS + ['seq_[A-Za-z0-9_]+__reserve'],
                  inline=[('IndexListItem::reset', None)], arrays_uf=False,
                  pre_c='#define SEQ_RESERVE_CHECK(n) __CPROVER_assert((n) <= 65536UL, "vector.reserve: allocation not sized by an unchecked length field (at most 64 Ki elements ahead of the data)");\n',
                  setup='  static struct IndexListItem obj; struct CdnsDecoder dec;\n  rd_init();\n  __CPROVER_assume(rd_cnt1 == 0);\n', args=['&obj', '&dec'], props=['C03', 'C08', 'C01'], timeout=600,
                  post='  if (g_exc != 0) { CANARY("decoder exception reachable"); }',
                  note='index list: array of any length, definite or indefinite: the list receives exactly the delivered elements in order; '
                       'no allocation is sized by the unchecked length field of the array head'))

TS_C = '''
__CPROVER_requires(__CPROVER_w_ok($this, sizeof(*$this)) && g_exc == 0 && RD_FRESH && !g_raised)
__CPROVER_assigns(__CPROVER_object_whole($this), ''' + RD_GHOSTS + ''')
__CPROVER_ensures(g_exc == 0 || g_exc == EXC_CdnsDecoderException || g_exc == EXC_CdnsDecoderEnd)
__CPROVER_ensures(g_raised ==> g_exc != 0)
__CPROVER_ensures(g_exc == 0 ==> (RD_ARRAY_DONE && rd_cnt1 == 2))
__CPROVER_ensures((g_exc == 0 && g_Ei == 0) ==> (g_eseen && $this->m_secs == g_elast))
__CPROVER_ensures((g_exc == 0 && g_Ei == 1) ==> (g_eseen && $this->m_ticks == g_elast))
'''
def ts_loops(ast, L, tf):
    n = dict(tf.locals)
    for need in ('is_m_secs', 'is_m_ticks', 'indef', 'length', 'i'):
        if need not in n:
            raise LowerError('Timestamp::read: local %s not found' % need)
    return {1: '''
  __CPROVER_assigns(__CPROVER_object_whole(this), i, is_m_secs, is_m_ticks, ''' + RD_GHOSTS + ''')
  __CPROVER_loop_invariant(g_exc == 0 && !g_raised && rd_depth == 1 && !rd_topmap && !rd_bad && !rd_done1 && !rd_break_pending)
  __CPROVER_loop_invariant(i <= 2 && rd_cnt1 == i && (rd_indef1 ? indef : (!indef && i <= length && rd_left1 == length - i)))
  __CPROVER_loop_invariant((is_m_secs != 0) == (i >= 1) && (is_m_ticks != 0) == (i >= 2))
  __CPROVER_loop_invariant((g_Ei == 0 && i >= 1) ==> (g_eseen && this->m_secs == g_elast))
  __CPROVER_loop_invariant((g_Ei == 1 && i >= 2) ==> (g_eseen && this->m_ticks == g_elast))
'''}
UNITS.append(Unit('r.Timestamp', ('Timestamp::read', None), contract=TS_C, loops=ts_loops, prelude=P, extern_records=EXT, stubs=DEC_STUBS, inline=[('Timestamp::reset', None)], arrays_uf=False,
                  setup='  static struct Timestamp obj; struct CdnsDecoder dec;\n  rd_init(); g_raised = 0;\n', args=['&obj', '&dec'], props=['C08', 'C01', 'C17', 'C03', 'C05'], timeout=600,
                  post='  if (g_exc != 0) { CANARY("decoder exception reachable"); }',
                  note='timestamp: an array (definite or indefinite) of exactly two unsigned integers, seconds then ticks; fewer or more elements raise a format error'))
UNITS.append(Unit('r.StringItem', ('StringItem::read', None), contract='''
__CPROVER_requires(__CPROVER_w_ok($this, sizeof(*$this)) && g_exc == 0 && !g_raised && rd_depth == 1 && !rd_topmap && !rd_bad && !rd_break_pending && !rd_done1 && (rd_indef1 || rd_left1 > 0) && rd_cnt1 < (1UL << 60))
__CPROVER_assigns(__CPROVER_object_whole($this), ''' + RD_GHOSTS + ''')
__CPROVER_ensures(g_exc == 0 || g_exc == EXC_CdnsDecoderException || g_exc == EXC_CdnsDecoderEnd)
__CPROVER_ensures(g_raised ==> g_exc != 0)
__CPROVER_ensures(g_exc == 0 ==> (rd_cnt1 == @C0 + 1 && !rd_bad))
__CPROVER_ensures((g_exc == 0 && g_Ei == @C0) ==> (g_eseen && $this->data.id == g_elast))
''', prelude=P, extern_records=EXT, stubs=DEC_STUBS, inline=[('StringItem::reset', None)], arrays_uf=False, ghost=[('unsigned long', 'C0', 'rd_cnt1')],
                  setup='  static struct StringItem obj; struct CdnsDecoder dec;\n  g_raised = 0;\n  __CPROVER_assume(rd_depth == 1 && !rd_topmap && !rd_bad && !rd_break_pending && !rd_done1 && (rd_indef1 || rd_left1 > 0) && rd_cnt1 < (1UL << 60));\n', args=['&obj', '&dec'],
                  props=['C08', 'C01', 'C05'], timeout=300, post='  if (g_exc != 0) { CANARY("decoder exception reachable"); }',
                  note='string item: exactly one byte string is read and stored'))

RFH_C = '''
__CPROVER_requires(__CPROVER_w_ok($this, sizeof(*$this)) && g_exc == 0 && H.step == 0 && !H.seq_bad && !H.raised)
__CPROVER_assigns(__CPROVER_object_whole($this), H, g_lit, g_exc)
__CPROVER_ensures(g_exc == 0 || g_exc == EXC_CdnsDecoderException || g_exc == EXC_CdnsDecoderEnd)
__CPROVER_ensures(!H.seq_bad)
__CPROVER_ensures(H.raised ==> g_exc != 0)
__CPROVER_ensures(g_exc == 0 ==> (H.step == 4 && (H.outer_indef || H.outer_len == 3)))
__CPROVER_ensures(g_exc == 0 ==> (__CPROVER_uninterpreted_upper(H.id) == g_lit.id && H.idlen == g_lit.len))
__CPROVER_ensures(g_exc == 0 ==> ($this->m_blocks_count == H.blocks_len && ($this->m_indef_blocks != 0) == (H.blocks_indef != 0)))
__CPROVER_ensures((g_exc == EXC_CdnsDecoderException && !H.raised) ==> ((H.step == 1 && !H.outer_indef && H.outer_len != 3) || (H.step == 2 && !(__CPROVER_uninterpreted_upper(H.id) == g_lit.id && H.idlen == g_lit.len))))
'''
UNITS.append(Unit('rdr.read_file_header', ('CdnsReader::read_file_header', None), contract=RFH_C, prelude='hdr.h', extern_records=EXT,
                  stubs=['CdnsDecoder__read_array_start', 'CdnsDecoder__read_textstring', 'cstring__[a-z]+'],
                  gen_stubs=[(r'^FilePreamble__read$', '  HTHROW()\n  { __typeof__(*$P0) fresh; *$P0 = fresh; }\n  if (H.step == 2) H.step = 3; else H.seq_bad = 1;')],
                  extra_c='struct seq_u8 g_OpCodesDefault; struct seq_u16 g_RrTypesDefault;\n',
                  setup='  static struct CdnsReader obj;\n  H.step = 0; H.seq_bad = 0; H.raised = 0;\n', args=['&obj'], props=['C05', 'C08', 'C03'], timeout=300,
                  post='  if (g_exc != 0) { CANARY("decoder exception reachable"); }',
                  note='file header: outer array (definite of 3 or indefinite), file type ID compared case-insensitively with the literal, preamble, start of the block array '
                       '(count and form stored); every decoder error propagates; a format error of its own is raised only for a wrong outer length or ID. '
                       'The characters of the literal "C-DNS" are not inspected'))

# constructor of the reader: the file header is read (and its errors - end of input included - propagate) before any block can be asked for
RCT_C = """
__CPROVER_requires(g_exc == 0 && H.step == 0 && !H.seq_bad && !H.raised)
__CPROVER_assigns(H, g_lit, g_exc)
__CPROVER_ensures(g_exc == 0 || g_exc == EXC_CdnsDecoderException || g_exc == EXC_CdnsDecoderEnd)
__CPROVER_ensures(!H.seq_bad && (H.raised ==> g_exc != 0))
__CPROVER_ensures(g_exc == 0 ==> H.step == 4)
__CPROVER_ensures(g_exc == 0 ==> ($ret.m_blocks_count == H.blocks_len && ($ret.m_indef_blocks != 0) == (H.blocks_indef != 0)))
"""
UNITS.append(Unit('rdr.ctor', ('@_ZN4CDNS10CdnsReaderC1ERSi', None), contract=RCT_C, prelude='hdr.h', extern_records=EXT,
                  opaque={'std::basic_istream': 'struct istream_s', 'std::istream': 'struct istream_s'},
                  stubs=['cstring__[a-z]+', 'seq_[A-Za-z0-9_]+__\\w+', 'istream_s__peek'], replace=['rdr.read_file_header'],
                  gen_stubs=[(r'^CdnsDecoder__ctor__\w+$', '  struct CdnsDecoder d; return d;'), (r'^FilePreamble__ctor__\w+$', '  struct FilePreamble f; return f;')],
                  auto_inline=[r'(?!CdnsDecoder|FilePreamble)[A-Za-z]+__ctor__\w+', r'[A-Za-z]+__default', r'[A-Za-z]+__op_assign\w*', r'[A-Za-z]+__reset'],
                  extra_c='struct seq_u8 g_OpCodesDefault; struct seq_u16 g_RrTypesDefault;\nstruct istream_s { char opaque; };\nint nondet_int(void);\nint istream_s__peek(struct istream_s *s) { int c = nondet_int(); __CPROVER_assume(c >= -1 && c <= 255); return c; }   /* std::istream::peek(): next byte or EOF, also EOF on a stream that cannot be read */\n',
                  setup='  static struct istream_s in;\n  H.step = 0; H.seq_bad = 0; H.raised = 0;\n', args=['&in'], props=['C05', 'C08'], timeout=300,
                  post='  if (g_exc != 0) { CANARY("decoder exception reachable"); }',
                  note='a reader exists only after its file header has been read completely: the constructor calls read_file_header unconditionally and lets every '
                       'decoder error (end of input on an empty or unreadable stream included) propagate'))

TRUSTED_BASE = [
    'A13(ii) byte-layer contracts of CdnsDecoder (dec.* units) reduced to a token stream: each read call delivers one value of the kind asked for or raises',
    'A4 optional, A5 string (length, content identity), A6 vector as abstract sequence with one watched element',
    'callee readers replaced by executable stubs of their contract (consume exactly one item; result arbitrary), each discharged in its own unit r.<Struct>',
    'RFC 8618 tables in /verif/spec/rfc8618_maps.py', 'cdns2c lowering incl. lambda lifting of read_array call sites; CBMC 6.11 dfcc; cadical',
]
ASSUMPTIONS = ['container sizes < 2^60', 'A13(iii) distinct-key map steps commute because each step\'s frame is its own member']
