"""C11: block-table key types: operator== is member-wise equality and agrees with hash_value (equal values hash equally),
the precondition for de-duplication in BlockTable<T> (std::unordered_map looks a key up by hash first)."""
from driver import BmcUnit, Unit
from item_units import P as ITEM_P

UNITS = []
KEYS = {
    'ClassType': ['type', 'class_'],
    'Question': ['name_index', 'classtype_index'],
    'RR': ['name_index', 'classtype_index', '?ttl', '?rdata_index'],
    'QueryResponseSignature': ['?server_address_index', '?server_port', '?qr_transport_flags', '?qr_type', '?qr_sig_flags', '?query_opcode',
                               '?qr_dns_flags', '?query_rcode', '?query_classtype_index', '?query_qdcount', '?query_ancount', '?query_nscount',
                               '?query_arcount', '?query_edns_version', '?query_udp_size', '?query_opt_rdata_index', '?response_rcode'],
    'MalformedMessageData': ['?server_address_index', '?server_port', '?mm_transport_flags', '?$mm_payload'],
    'AddressEventCount': ['ae_type', '?ae_code', 'ae_address_index', '?ae_transport_flags', 'ae_count'],
    'StringItem': ['$data'],
    'IndexListItem': ['%list'],
}


def member_eq(f):
    opt = f.startswith('?')
    f = f.lstrip('?')
    s = f.startswith('$')
    f = f.lstrip('$')
    if f.startswith('%'):      # a vector member: content identity (equal id <=> same length and elements), see bt.h
        f = f.lstrip('%')
        return '(a.%s.id == b.%s.id)' % (f, f)
    if opt:
        v = ('(a.%s.val.id == b.%s.val.id && a.%s.val.len == b.%s.val.len)' if s else '(a.%s.val == b.%s.val)')
        v = v % ((f,) * (4 if s else 2))
        return '((!a.%s.has && !b.%s.has) || (a.%s.has && b.%s.has && %s))' % (f, f, f, f, v)
    if s:
        return '(a.%s.id == b.%s.id && a.%s.len == b.%s.len)' % (f, f, f, f)
    return '(a.%s == b.%s)' % (f, f)


SEQ_HELPERS = '''/* std::vector<index_t>: == compares length and elements = content identity; data()/size() feed the byte hash */
static inline _Bool seq_u32__eq(struct seq_u32 *a, struct seq_u32 *b) { return a->id == b->id; }
static inline unsigned int *seq_u32__data(struct seq_u32 *s) { return (unsigned int *)s->id; }
unsigned long hash_value__p_u32_u64_u32(unsigned int *p, unsigned long n, unsigned int seed) { return __CPROVER_uninterpreted_hbytes((unsigned long)p, n, seed); }
'''
for rec, fields in KEYS.items():
    fns = [(rec + '::operator==', None)]
    hash_own = rec not in ('ClassType', 'Question')      # these two use the generic object-representation hash
    if hash_own:
        fns.append((rec + '::hash_value', None))
    spec = ' && '.join(member_eq(f) for f in fields)
    h = '''
  struct %(r)s a, b;
  g_exc = 0;%(extra)s
  _Bool eq = %(r)s__op_eq(&a, &b);
  __CPROVER_assert(eq == (%(spec)s), "operator== is exactly member-wise equality (all members of the key)");
''' % {'r': rec, 'spec': spec, 'extra': ''.join('\n  __CPROVER_assume(a.%s.id != b.%s.id || a.%s.n == b.%s.n);   /* content identity determines the length */' % ((f.lstrip('%'),) * 4) for f in fields if f.startswith('%'))}
    if hash_own:
        h += '''
  unsigned long ha = %(r)s__hash_value(&a), hb = %(r)s__hash_value(&b);
  __CPROVER_assert(!eq || ha == hb, "equal keys hash equally (otherwise equal values are stored twice)");
''' % {'r': rec}
    h += '  if (eq) { CANARY("equal pair reachable"); }\n'
    UNITS.append(BmcUnit('bt.eqhash.' + rec, fns, h, 'bt.h', unwind=1, bound_text=None, props=['C11', 'C01'],
                         stubs=['hash_value__p_\\w+', 'opt_\\w+', 'cstring__\\w+', 'seq_u32__\\w+'], timeout=600, post_c=SEQ_HELPERS if rec == 'IndexListItem' else '',
                         note='loop-free: complete for all pairs of values. CRC32 uninterpreted (A9).'))


# ---------------------------------------------------------------- BlockTable<T> itself (real template instantiations)
from ctypes_lower import LowerError
MANGLED = {'StringItem': '10StringItem', 'ClassType': '9ClassType', 'QueryResponseSignature': '22QueryResponseSignature', 'IndexListItem': '13IndexListItem',
           'Question': '8Question', 'RR': '2RR', 'MalformedMessageData': '20MalformedMessageData'}


def val_eq(ast, L, rec, a, b):
    """member-wise equality of two abstract values of record rec (all members, taken from the AST)"""
    out = []
    for f in ast.records[rec].get('inner', []):
        if not (isinstance(f, dict) and f.get('kind') == 'FieldDecl'):
            continue
        n = f['name']
        cls, t = L.types.classify(f['type'].get('desugaredQualType') or f['type']['qualType'])
        x, y = '%s.%s' % (a, n), '%s.%s' % (b, n)
        if cls in ('builtin', 'enum'):
            out.append('%s == %s' % (x, y))
        elif cls == 'str':
            out.append('%s.id == %s.id && %s.len == %s.len' % (x, y, x, y))
        elif cls == 'opt':
            ic = L.types.classify(t.args[0])[0]
            v = ('%s.val.id == %s.val.id && %s.val.len == %s.val.len' % (x, y, x, y)) if ic == 'str' else ('%s.val == %s.val' % (x, y))
            if ic not in ('builtin', 'enum', 'str'):
                raise LowerError('val_eq: optional of %s' % ic)
            out.append('((%s.has != 0) == (%s.has != 0)) && (!%s.has || (%s))' % (x, y, x, v))
        elif cls in ('vec', 'deq'):
            out.append('%s.n == %s.n && %s.wi == %s.wi && %s.wv == %s.wv' % (x, y, x, y, x, y))
        else:
            raise LowerError('val_eq: member %s of class %s' % (n, cls))
    return '(' + ' && '.join(out) + ')'


def bt_req(rec):
    return '''
__CPROVER_requires(__CPROVER_w_ok($this, sizeof(*$this)) && g_exc == 0)
__CPROVER_requires($this->items_.n < (1UL << 31) && $this->indexes_.n <= $this->items_.n)
__CPROVER_requires(g_present ==> g_pidx < $this->items_.n)
__CPROVER_requires(g_finds == 0 && g_stores == 0)
'''


def c_index(rec):
    def gen(ast, L, tf):
        return '''
__CPROVER_requires(__CPROVER_r_ok($this, sizeof(*$this)) && g_exc == 0)
__CPROVER_assigns(seq_%(r)s__cur, g_exc)
__CPROVER_ensures(g_exc == 0 || g_exc == EXC_runtime_error)
__CPROVER_ensures((g_exc == 0) == ((unsigned long)$1 < $this->items_.n))
__CPROVER_ensures((g_exc == 0 && (unsigned long)$1 == $this->items_.wi) ==> $ret == &$this->items_.wv)
__CPROVER_ensures((g_exc == 0 && (unsigned long)$1 != $this->items_.wi) ==> $ret == &seq_%(r)s__cur)
''' % {'r': rec}
    return gen


def c_find(rec):
    def gen(ast, L, tf):
        return bt_req(rec) + '''
__CPROVER_requires(__CPROVER_r_ok($1, sizeof(*$1)) && __CPROVER_w_ok($2, sizeof(*$2)))
__CPROVER_assigns(*$2, umap_KeyRef_%(r)s_u32__cur, g_finds, g_find_key)
__CPROVER_ensures(g_exc == 0 && g_finds == 1 && g_find_key == (void *)$1)
__CPROVER_ensures(($ret != 0) == (g_present != 0))
__CPROVER_ensures($ret ==> (*$2 == (unsigned int)g_pidx && (unsigned long)*$2 < $this->items_.n))
__CPROVER_ensures(!$ret ==> *$2 == @I0)
''' % {'r': rec}
    return gen


def c_add_value(rec):
    def gen(ast, L, tf):
        return bt_req(rec) + '''
__CPROVER_requires(__CPROVER_r_ok($1, sizeof(*$1)))
__CPROVER_assigns($this->items_, $this->indexes_, seq_%(r)s__cur, umap_KeyRef_%(r)s_u32__cur, g_stores, g_find_key, g_last_entry)
__CPROVER_ensures(g_exc == 0 && $this->items_.n == @N0 + 1 && $ret == (unsigned int)@N0)
__CPROVER_ensures($this->items_.wi == @N0 ==> %(eq_new)s)
__CPROVER_ensures($this->items_.wi < @N0 ==> %(eq_old)s)
__CPROVER_ensures(g_stores == 1 && (g_last_entry == (void *)&$this->indexes_.wv || g_last_entry == (void *)&umap_KeyRef_%(r)s_u32__cur) && ((struct pair_KeyRef_%(r)s_u32 *)g_last_entry)->second == (unsigned int)@N0)
__CPROVER_ensures(g_find_key == ($this->items_.wi == @N0 ? (void *)&$this->items_.wv : (void *)&seq_%(r)s__cur))
__CPROVER_ensures($this->indexes_.n == @M0 + (g_present ? 0UL : 1UL) && $this->indexes_.n <= $this->items_.n)
''' % {'r': rec, 'eq_new': val_eq(ast, L, rec, '$this->items_.wv', '(*$1)'), 'eq_old': val_eq(ast, L, rec, '$this->items_.wv', '@W0')}
    return gen


def c_add(rec):
    def gen(ast, L, tf):
        return bt_req(rec) + '''
__CPROVER_requires(__CPROVER_r_ok($1, sizeof(*$1)))
__CPROVER_assigns($this->items_, $this->indexes_, seq_%(r)s__cur, umap_KeyRef_%(r)s_u32__cur, g_finds, g_stores, g_find_key, g_last_entry)
__CPROVER_ensures(g_exc == 0 && (unsigned long)$ret < $this->items_.n)
__CPROVER_ensures(g_present ==> ($ret == (unsigned int)g_pidx && $this->items_.n == @N0 && $this->indexes_.n == @M0 && g_stores == 0))
__CPROVER_ensures(!g_present ==> ($ret == (unsigned int)@N0 && $this->items_.n == @N0 + 1 && $this->indexes_.n == @M0 + 1 && g_stores == 1))
__CPROVER_ensures((!g_present && $this->items_.wi == @N0) ==> %(eq_new)s)
__CPROVER_ensures($this->items_.wi < @N0 ==> %(eq_old)s)
__CPROVER_ensures(g_finds == 1)
''' % {'r': rec, 'eq_new': val_eq(ast, L, rec, '$this->items_.wv', '(*$1)'), 'eq_old': val_eq(ast, L, rec, '$this->items_.wv', '@W0')}
    return gen


def c_clear(rec):
    return '''
__CPROVER_requires(__CPROVER_w_ok($this, sizeof(*$this)) && g_exc == 0)
__CPROVER_assigns($this->items_.n, $this->indexes_.n)
__CPROVER_ensures(g_exc == 0 && $this->items_.n == 0 && $this->indexes_.n == 0)
'''


BT_OPQ = {'@real': 'BlockTable KeyRef'}
BT_STUBS = ['seq_[A-Za-z0-9_]+__(push_back|clear|size|at|back)', 'umap_[A-Za-z0-9_]+__(index|find|clear)', 'cstring__[a-z]+']
BT_AUTO = [r'[A-Za-z_]+__ctor__\w+', r'[A-Za-z]+__key']
for rec, mg in MANGLED.items():
    pre = '_ZN4CDNS10BlockTableINS_%sES1_E' % mg
    prek = '_ZNK4CDNS10BlockTableINS_%sES1_E' % mg
    setup = '  static struct BlockTable_%s obj;\n  __CPROVER_assume(obj.items_.n < (1UL << 31) && obj.indexes_.n <= obj.items_.n && (!g_present || g_pidx < obj.items_.n));\n  g_finds = 0; g_stores = 0;\n' % rec
    gh = [('unsigned long', 'N0', '$this->items_.n'), ('unsigned long', 'M0', '$this->indexes_.n'), ('struct ' + rec, 'W0', '$this->items_.wv')]
    common = dict(prelude='btr.h', opaque=BT_OPQ, stubs=BT_STUBS, auto_inline=BT_AUTO, props=['C11', 'C03', 'C01'], timeout=600)
    UNITS.append(Unit('btr.%s.index' % rec, ('@' + prek + 'ixEj', None), contract=c_index(rec), setup='  static struct BlockTable_%s obj; unsigned int a_pos;\n' % rec,
                      args=['&obj', 'a_pos'], post='  if (g_exc != 0) { CANARY("out-of-range index reachable"); }',
                      note='operator[]: returns the element iff the index is below size(), otherwise raises; never touches storage out of bounds', **common))
    UNITS.append(Unit('btr.%s.find' % rec, ('@' + pre + '4findERKS1_Rj', None), contract=c_find(rec), ghost=[('unsigned int', 'I0', '*$2')],
                      setup=setup + '  static struct %s a_key; unsigned int a_idx;\n' % rec, args=['&obj', '&a_key', '&a_idx'],
                      note='find: queries the index map once with the given key; reports the stored index iff an equal key is present, leaves the output alone otherwise', **common))
    rv = rec in ('StringItem', 'IndexListItem')      # only add_value(T&&) is instantiated for these two (CdnsBlock looks the key up itself)
    UNITS.append(Unit('btr.%s.add_value' % rec, ('@' + pre + ('9add_valueEOS1_' if rv else '9add_valueERKS1_'), None), contract=c_add_value(rec), ghost=gh,
                      inline=[('@' + pre + '15record_last_keyEv', None)], setup=setup + '  static struct %s a_val;\n' % rec, args=['&obj', '&a_val'],
                      note='add_value: appends exactly the given value at index old size, leaves existing entries alone, records the new index under a key that refers to the stored copy', **common))
    if not rv:
      UNITS.append(Unit('btr.%s.add' % rec, ('@' + pre + '3addERKS1_', None), contract=c_add(rec), ghost=gh,
                      inline=[('@' + pre + '15record_last_keyEv', None), ('@' + pre + '9add_valueERKS1_', None), ('@' + pre + '4findERKS1_Rj', None)],
                      setup=setup + '  static struct %s a_val;\n' % rec, args=['&obj', '&a_val'],
                      post='  if (g_present) { CANARY("equal key present reachable"); }',
                      note='add: an equal key present => its index, table unchanged; otherwise appended at index old size; existing entries never change (indices stay valid)', **common))
    UNITS.append(Unit('btr.%s.clear' % rec, ('@' + pre + '5clearEv', None), contract=c_clear(rec), setup='  static struct BlockTable_%s obj;\n' % rec, args=['&obj'],
                      note='clear: both the entries and the index map are emptied', **common))


# ---------------------------------------------------------------- C19: a copied table is independent of its source
def rep(tbl, rec):
    """representation invariant on the watched index-map entry: it refers to the table's own storage and to an existing entry"""
    own = '(%(t)s->indexes_.wv.first.key_ == &%(t)s->items_.wv || %(t)s->indexes_.wv.first.key_ == &seq_%(r)s__cur)' % {'t': tbl, 'r': rec}
    return '(%(t)s->indexes_.wi < %(t)s->indexes_.n ==> (%(own)s && (unsigned long)%(t)s->indexes_.wv.second < %(t)s->items_.n))' % {'t': tbl, 'own': own}


def c_rebuild(rec):
    def gen(ast, L, tf):
        return '''
__CPROVER_requires(__CPROVER_w_ok($this, sizeof(*$this)) && g_exc == 0 && $this->items_.n < (1UL << 31))
__CPROVER_assigns($this->indexes_, seq_%(r)s__cur, umap_KeyRef_%(r)s_u32__cur, g_stores, g_find_key, g_last_entry, g_present)
__CPROVER_ensures(g_exc == 0 && $this->indexes_.n <= $this->items_.n)
__CPROVER_ensures(%(rep)s)
''' % {'r': rec, 'rep': rep('$this', rec)}
    return gen


def l_rebuild(rec):
    def gen(ast, L, tf):
        i = [n for n, t in tf.locals if t == 'unsigned int']
        if len(i) != 1:
            raise LowerError('rebuild_index: loop counter not found')
        return {1: '''
  __CPROVER_assigns(%(i)s, this->indexes_, seq_%(r)s__cur, umap_KeyRef_%(r)s_u32__cur, g_stores, g_find_key, g_last_entry, g_present)
  __CPROVER_loop_invariant(g_exc == 0 && (unsigned long)%(i)s <= this->items_.n && this->indexes_.n <= (unsigned long)%(i)s)
  __CPROVER_loop_invariant(%(rep)s)
  __CPROVER_decreases(this->items_.n - (unsigned long)%(i)s)
''' % {'i': i[0], 'r': rec, 'rep': rep('this', rec)}}
    return gen


def c_copy(rec):
    def gen(ast, L, tf):
        return '''
__CPROVER_requires(__CPROVER_w_ok($this, sizeof(*$this)) && __CPROVER_r_ok($1, sizeof(*$1)) && g_exc == 0)
__CPROVER_requires($1->items_.n < (1UL << 31) && $1->indexes_.n <= $1->items_.n)
__CPROVER_requires(%(rep_src)s)
__CPROVER_assigns(__CPROVER_object_whole($this), seq_%(r)s__cur, umap_KeyRef_%(r)s_u32__cur, g_stores, g_find_key, g_last_entry, g_present)
__CPROVER_ensures(g_exc == 0 && $ret == $this)
__CPROVER_ensures($this->items_.n == $1->items_.n && ($this == $1 || ($this->items_.wi == $1->items_.wi && %(eq)s)))
__CPROVER_ensures(%(rep)s)
''' % {'r': rec, 'rep': rep('$this', rec), 'rep_src': rep('$1', rec), 'eq': val_eq(ast, L, rec, '$this->items_.wv', '$1->items_.wv')}
    return gen


for rec, mg in MANGLED.items():
    pre = '_ZN4CDNS10BlockTableINS_%sES1_E' % mg
    common = dict(prelude='btr.h', opaque=BT_OPQ, stubs=BT_STUBS + ['seq_[A-Za-z0-9_]+__assign', 'umap_[A-Za-z0-9_]+__assign'], auto_inline=BT_AUTO, props=['C19', 'C11'], timeout=600,
                  pre_c='#define BTR_REDRAW 1\n')
    UNITS.append(Unit('btr.%s.rebuild_index' % rec, ('@' + pre + '13rebuild_indexEv', None), contract=c_rebuild(rec), loops=l_rebuild(rec),
                      setup='  static struct BlockTable_%s obj;\n  __CPROVER_assume(obj.items_.n < (1UL << 31));\n' % rec, args=['&obj'],
                      note='the index is rebuilt from the table\'s own entries: every index-map entry written refers to an element of this table and carries its index', **common))
    u = Unit('btr.%s.copy_assign' % rec, ('@' + pre + 'aSERKS2_', None), contract=c_copy(rec), replace=['btr.%s.rebuild_index' % rec],
             setup='  static struct BlockTable_%s obj, src;\n  __CPROVER_assume(src.items_.n < (1UL << 31) && src.indexes_.n <= src.items_.n && %s);\n' % (rec, 'REP_SRC'), args=['&obj', '&src'],
             note='copy assignment (the operation CdnsBlock::operator= applies to every table, and with it every copy of a block): the copy holds the same entries and '
                  'its index map refers to its own storage, never to the source\'s (which may be modified, cleared or destroyed afterwards)', **common)
    u.replace_optional = True
    u.setup = u.setup.replace('REP_SRC', rep('(&src)', rec))
    UNITS.append(u)

TRUSTED_BASE = ['A9 CRC32 intrinsics uninterpreted',
                'A7 std::deque<T> as an abstract sequence with one watched element; references to elements stay valid on push_back',
                'A8 std::unordered_map<KeyRef<T>, index_t>: a lookup finds an entry iff a key equal (operator==) to the queried one is stored, given the equality/hash '
                'agreement of the bt.eqhash.* units; representation invariant "stored index < size, stored under the key of the element with that index" assumed on lookup',
                'object representation of std::string depends on the object address', 'cdns2c lowering of the real template instantiations; CBMC 6.11 dfcc; cadical']
ASSUMPTIONS = ['ClassType and Question are hashed over their object representation (no padding: 2x uint16 / 2x uint32) - agreement holds trivially',
               'table sizes < 2^31 (index_t is 32 bits)']
