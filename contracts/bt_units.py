"""C11: block-table key types: operator== is member-wise equality and agrees with hash_value (equal values hash equally),
the precondition for de-duplication in BlockTable<T> (std::unordered_map looks a key up by hash first)."""
from driver import BmcUnit, Unit
from item_units import P as ITEM_P

UNITS = []
KEYS = {
    'ClassType': ['type', 'class_'],
    'Question': ['name_index', 'classtype_index'],
    'RR': ['name_index', 'classtype_index', '?ttl', '?rdata_index'],
    'QueryResponseSignature': ['?server_address_index', '?server_port', '?qr_transport_flags', '?qr_type', '?qr_sig_flags', '?query_opcode',
                               '?qr_dns_flags', '?query_rcode', '?query_classtype_index', '?query_qdcount', '?query_ancount', '?query_nscount',
                               '?query_arcount', '?query_edns_version', '?query_udp_size', '?query_opt_rdata_index', '?response_rcode'],
    'MalformedMessageData': ['?server_address_index', '?server_port', '?mm_transport_flags', '?$mm_payload'],
    'AddressEventCount': ['ae_type', '?ae_code', 'ae_address_index', '?ae_transport_flags', 'ae_count'],
    'StringItem': ['$data'],
}


def member_eq(f):
    opt = f.startswith('?')
    f = f.lstrip('?')
    s = f.startswith('$')
    f = f.lstrip('$')
    if opt:
        v = ('(a.%s.val.id == b.%s.val.id && a.%s.val.len == b.%s.val.len)' if s else '(a.%s.val == b.%s.val)')
        v = v % ((f,) * (4 if s else 2))
        return '((!a.%s.has && !b.%s.has) || (a.%s.has && b.%s.has && %s))' % (f, f, f, f, v)
    if s:
        return '(a.%s.id == b.%s.id && a.%s.len == b.%s.len)' % (f, f, f, f)
    return '(a.%s == b.%s)' % (f, f)


for rec, fields in KEYS.items():
    fns = [(rec + '::operator==', None)]
    hash_own = rec not in ('ClassType', 'Question')      # these two use the generic object-representation hash
    if hash_own:
        fns.append((rec + '::hash_value', None))
    spec = ' && '.join(member_eq(f) for f in fields)
    h = '''
  struct %(r)s a, b;
  g_exc = 0;
  _Bool eq = %(r)s__op_eq(&a, &b);
  __CPROVER_assert(eq == (%(spec)s), "operator== is exactly member-wise equality (all members of the key)");
''' % {'r': rec, 'spec': spec}
    if hash_own:
        h += '''
  unsigned long ha = %(r)s__hash_value(&a), hb = %(r)s__hash_value(&b);
  __CPROVER_assert(!eq || ha == hb, "equal keys hash equally (otherwise equal values are stored twice)");
''' % {'r': rec}
    h += '  if (eq) { CANARY("equal pair reachable"); }\n'
    UNITS.append(BmcUnit('bt.eqhash.' + rec, fns, h, 'bt.h', unwind=1, bound_text=None, props=['C11'],
                         stubs=['hash_value__p_\\w+', 'opt_\\w+', 'cstring__\\w+'], timeout=600,
                         note='loop-free: complete for all pairs of values. CRC32 uninterpreted (A9).'))

TRUSTED_BASE = ['A9 CRC32 intrinsics uninterpreted', 'A7/A8: BlockTable<T>::add/find/record_last_key over std::deque and std::unordered_map are NOT under contract '
                '(libstdc++ containers are outside the lowering): de-duplication is claimed only as far as equality/hash agreement, clear() and the '
                'call counting of the add_* units go', 'object representation of std::string depends on the object address']
ASSUMPTIONS = ['ClassType and Question are hashed over their object representation (no padding: 2x uint16 / 2x uint32) - agreement holds trivially']
