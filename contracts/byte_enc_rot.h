/* Byte layer, encoder side, end of an output (C15, C16, C13): CdnsEncoder::rotate_output<T> and ~CdnsEncoder over a sink that
 * may reject a write (A1) and a ghost rotation event. */
#define SINK_MAY_FAIL 1
#include "byte_enc.h"
#include "item_types.h"
struct any { int which; cstring s; int fd; };
struct any any__from_i32(int *v) { struct any a; a.which = 2; a.fd = *v; return a; }
struct any any__from_str(cstring *v) { struct any a; a.which = 1; a.s = *v; return a; }
struct CdnsEncoder;
unsigned long g_rot;            /* rotations of the sink */
_Bool g_open_fail;             /* the new output could not be opened */
_Bool g_rot_with_pending;       /* the sink was rotated while bytes produced for the old output had not reached it */
void BaseCborOutputWriter__rotate_output(struct BaseCborOutputWriter *w, struct any *v)
{
  if (g_exc) return;
  if (g_sink_len != g_L0) g_rot_with_pending = 1;
  if (g_rot < 1000) g_rot++;
  if (nondet_bool()) { g_open_fail = 1; g_exc = EXC_CborOutputException; }   /* the new output cannot be opened */
}
