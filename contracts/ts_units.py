"""Timestamp arithmetic (C17 first half; C03 arithmetic safety of add_time_offset)."""
from driver import Unit, Lemma

P = 'ts.h'
TS = 'Timestamp::'

GET_C = '''
__CPROVER_requires(__CPROVER_r_ok($this, sizeof(*$this)) && __CPROVER_r_ok($1, sizeof(*$1)))
__CPROVER_requires(g_exc == 0)
__CPROVER_requires($2 <= 1000000000UL)
__CPROVER_requires(M64($this, $2) >= 0 && M64($1, $2) >= 0)
__CPROVER_assigns(g_exc)
__CPROVER_ensures(($2 == 0) == (g_exc != 0))
__CPROVER_ensures(g_exc != 0 ==> g_exc == EXC_runtime_error)
__CPROVER_ensures(g_exc == 0 ==> $ret == M64($this, $2) - M64($1, $2))
'''
UNITS = [Unit('ts.get_time_offset', (TS + 'get_time_offset', None), contract=GET_C, prelude=P,
              setup='  struct Timestamp obj; struct Timestamp ref;\n  unsigned long a_tps;\n',
              args=['&obj', '&ref', 'a_tps'], props=['C17'], timeout=1200,
              post='  if (g_exc != 0) { CANARY("refusal reachable"); }',
              note='result == machine instant(this) - machine instant(ref) exactly (no wrap), all tick rates 0..10^9 (0 = refusal); '
                   'machine instant == mathematical instant by lemma ts.lemma.modular')]

ADD_C = '''
__CPROVER_requires(__CPROVER_w_ok($this, sizeof(*$this)))
__CPROVER_requires(g_exc == 0)
__CPROVER_requires($2 <= 1000000000UL)
__CPROVER_requires(M64($this, $2) >= 0)
__CPROVER_requires((i128)M64($this, $2) + (i128)$1 < TWO63)
__CPROVER_requires(g_s0 == $this->m_secs && g_t0 == $this->m_ticks && g_T == (i128)M64($this, $2) + (i128)$1)
__CPROVER_assigns($this->m_secs, $this->m_ticks, g_exc)
__CPROVER_ensures(($2 == 0 || g_T < 0) == (g_exc != 0))
__CPROVER_ensures(g_exc != 0 ==> (g_exc == EXC_runtime_error && $this->m_secs == g_s0 && $this->m_ticks == g_t0))
__CPROVER_ensures(g_exc == 0 ==> $this->m_secs == ((unsigned long)(M64G($2) + $1)) / $2)
__CPROVER_ensures(g_exc == 0 ==> $this->m_ticks == ((unsigned long)(M64G($2) + $1)) % $2)
'''
UNITS.append(Unit('ts.add_time_offset', (TS + 'add_time_offset', None), contract=ADD_C, prelude=P, backend='cvc5', split=True,
                  setup='  struct Timestamp obj; long a_offset; unsigned long a_tps;\n  g_s0 = obj.m_secs; g_t0 = obj.m_ticks; g_T = (i128)M64(&obj, a_tps) + (i128)a_offset;\n',
                  args=['&obj', 'a_offset', 'a_tps'], props=['C17', 'C03'], timeout=600,
                  post='  if (g_exc != 0) { CANARY("refusal reachable"); }',
                  note='all int64 offsets including INT64_MIN; refusal iff tick rate 0 or result before the epoch, object unchanged on refusal; '
                       'result = (T div r, T mod r) of the exact sum T; no signed overflow anywhere'))

Z = 18446744073709551616
UNITS.append(Lemma('ts.lemma.modular', '''
; A12 bridge: the 64-bit modular evaluation of secs*r+ticks, reinterpreted as signed, IS the exact instant when that is < 2^63
(declare-const s Int) (declare-const r Int) (declare-const t Int)
(assert (and (<= 0 s) (< s %(Z)d) (<= 0 t) (< t %(Z)d) (<= 0 r) (<= r 1000000000)))
(define-fun I () Int (+ (* s r) t))
(assert (< I 9223372036854775808))
(define-fun M () Int (mod (+ (mod (* s r) %(Z)d) t) %(Z)d))
(define-fun S () Int (ite (>= M 9223372036854775808) (- M %(Z)d) M))
(assert (not (= S I)))
(check-sat)
''' % {'Z': Z}, props=['C17'], note='machine instant == mathematical instant for instants < 2^63'))
UNITS.append(Lemma('ts.lemma.euclid', '''
; the (div, mod) pair stored by add_time_offset is the normalised form of the exact sum T
(declare-const T Int) (declare-const r Int)
(assert (and (>= T 0) (>= r 1)))
(assert (not (and (= (+ (* (div T r) r) (mod T r)) T) (<= 0 (mod T r)) (< (mod T r) r))))
(check-sat)
''', props=['C17'], note='(T div r)*r + (T mod r) == T and 0 <= T mod r < r'))
UNITS.append(Lemma('ts.lemma.inverse', '''
; ref.add(x.offset_from(ref)) reproduces a normalised x: with T = I_ref + (I_x - I_ref) = I_x
(declare-const s Int) (declare-const t Int) (declare-const r Int) (declare-const sr Int) (declare-const tr Int)
(assert (and (>= s 0) (>= t 0) (>= r 1) (< t r) (>= sr 0) (>= tr 0)))
(define-fun Ix () Int (+ (* s r) t))
(define-fun Ir () Int (+ (* sr r) tr))
(define-fun T () Int (+ Ir (- Ix Ir)))
(assert (not (and (= (div T r) s) (= (mod T r) t))))
(check-sat)
''', props=['C17'], note='offset followed by add is the identity on normalised timestamps'))
UNITS.append(Lemma('ts.lemma.lex', '''
; lexicographic order on normalised (secs, ticks) is the order by instant
(declare-const s1 Int) (declare-const t1 Int) (declare-const s2 Int) (declare-const t2 Int) (declare-const r Int)
(assert (and (<= 0 s1) (<= 0 s2) (<= 0 t1) (<= 0 t2) (>= r 1) (< t1 r) (< t2 r)))
(define-fun lt () Bool (or (< s1 s2) (and (= s1 s2) (< t1 t2))))
(define-fun le () Bool (or (< s1 s2) (and (= s1 s2) (<= t1 t2))))
(assert (not (and (= lt (< (+ (* s1 r) t1) (+ (* s2 r) t2))) (= le (<= (+ (* s1 r) t1) (+ (* s2 r) t2))))))
(check-sat)
''', props=['C17'], note='operator< / operator<= order timestamps by instant'))

CMP = '''
__CPROVER_requires(__CPROVER_r_ok($this, sizeof(*$this)) && __CPROVER_r_ok($1, sizeof(*$1)))
__CPROVER_requires(g_exc == 0)
__CPROVER_assigns()
__CPROVER_ensures(g_exc == 0)
__CPROVER_ensures($ret == ($this->m_secs < $1->m_secs || ($this->m_secs == $1->m_secs && $this->m_ticks %s $1->m_ticks)))
'''
for op, c in [('operator<', '<'), ('operator<=', '<=')]:
    UNITS.append(Unit('ts.' + ('lt' if c == '<' else 'le'), (TS + op, None), contract=CMP % c, prelude=P,
                      setup='  struct Timestamp obj; struct Timestamp rhs;\n', args=['&obj', '&rhs'], props=['C17'],
                      note='lexicographic order on (secs, ticks); equals order by instant for normalised timestamps by lemma ts.lemma.lex (z3, integers)'))

TRUSTED_BASE = [
    'A12 machine model LP64, two\'s complement, unsigned->signed conversion modular (g++/clang)',
    'mathematical instants modelled in 128-bit two\'s complement arithmetic (no overflow for secs,rate < 2^64)',
    'cdns2c lowering; CBMC 6.11 dfcc; cvc5 1.0 / cadical; z3 4.8 for the integer lemmas',
]
ASSUMPTIONS = [
    'tick rate <= 10^9 and instants < 2^63 (the representable range of the property statement)',
    'add_time_offset: the resulting instant is < 2^63 (representable)',
]

# ---------------------------------------------------------------- C03: add_time_offset on values taken from an untrusted file
ADD_UNTRUSTED = '''
__CPROVER_requires(__CPROVER_w_ok($this, sizeof(*$this)))
__CPROVER_requires(g_exc == 0)
__CPROVER_assigns($this->m_secs, $this->m_ticks, g_exc)
__CPROVER_ensures(g_exc == 0 || g_exc == EXC_runtime_error)
__CPROVER_ensures(g_exc != 0 ==> ($this->m_secs == @S0 && $this->m_ticks == @T0))
'''
UNITS.append(Unit('ts.add_time_offset.untrusted', (TS + 'add_time_offset', None), contract=ADD_UNTRUSTED, prelude=P, backend='cvc5',
                  ghost=[('unsigned long', 'S0', '$this->m_secs'), ('unsigned long', 'T0', '$this->m_ticks')],
                  setup='  struct Timestamp obj; long a_offset; unsigned long a_tps;\n', args=['&obj', 'a_offset', 'a_tps'], props=['C03'], timeout=600,
                  post='  if (g_exc != 0) { CANARY("refusal reachable"); }',
                  note='CdnsBlockRead::read feeds earliest-time, offsets and ticks_per_second from the file into add_time_offset: for ALL 64-bit values '
                       '(no representable-range precondition) there is no signed overflow and no division by zero; it either succeeds or refuses with the object unchanged'))
