"""Byte layer, encoder side (C06, byte part of C10): contracts of the real CdnsEncoder functions."""
from driver import Unit

ENC = 'CdnsEncoder::'
P = 'byte_enc.h'

ENC_SETUP = '''
  static unsigned char bufobj[2048];
  unsigned char *buf = bufobj;
  struct BaseCborOutputWriter cos;
  struct CdnsEncoder obj;
  unsigned long fill;
  __CPROVER_assume(fill <= 2048);
  obj.m_cos = &cos; obj.m_buffer = buf; obj.m_p = buf + fill; obj.m_avail = 2048 - fill;
  g_buf = buf;
  __CPROVER_assume(g_sink_len < (1UL << 60));
'''

# ---------------------------------------------------------------- write_int
WRITE_INT_C = '''
__CPROVER_requires(__CPROVER_w_ok($this, sizeof(*$this)))
__CPROVER_requires(ENC_INV($this))
__CPROVER_requires(MAJOR_OK($2))
__CPROVER_requires(g_exc == 0)
__CPROVER_assigns($1 <= 23UL && $this->m_avail >= 1: __CPROVER_object_upto($this->m_p, 1))
__CPROVER_assigns($1 > 23UL && $1 <= 0xffUL && $this->m_avail >= 2: __CPROVER_object_upto($this->m_p, 2))
__CPROVER_assigns($1 > 0xffUL && $1 <= 0xffffUL && $this->m_avail >= 3: __CPROVER_object_upto($this->m_p, 3))
__CPROVER_assigns($1 > 0xffffUL && $1 <= 0xffffffffUL && $this->m_avail >= 5: __CPROVER_object_upto($this->m_p, 5))
__CPROVER_assigns($1 > 0xffffffffUL && $this->m_avail >= 9: __CPROVER_object_upto($this->m_p, 9))
__CPROVER_ensures($ret == (HL($1) <= $this->m_avail ? HL($1) : 0UL))
__CPROVER_ensures($ret >= 1 ==> $this->m_p[0] == HEAD_BYTE($1, $2, 0))
__CPROVER_ensures($ret >= 2 ==> $this->m_p[1] == HEAD_BYTE($1, $2, 1))
__CPROVER_ensures($ret >= 3 ==> $this->m_p[2] == HEAD_BYTE($1, $2, 2))
__CPROVER_ensures($ret >= 5 ==> $this->m_p[3] == HEAD_BYTE($1, $2, 3))
__CPROVER_ensures($ret >= 5 ==> $this->m_p[4] == HEAD_BYTE($1, $2, 4))
__CPROVER_ensures($ret >= 9 ==> $this->m_p[5] == HEAD_BYTE($1, $2, 5))
__CPROVER_ensures($ret >= 9 ==> $this->m_p[6] == HEAD_BYTE($1, $2, 6))
__CPROVER_ensures($ret >= 9 ==> $this->m_p[7] == HEAD_BYTE($1, $2, 7))
__CPROVER_ensures($ret >= 9 ==> $this->m_p[8] == HEAD_BYTE($1, $2, 8))
__CPROVER_ensures(g_exc == 0)
'''

UNITS = []
UNITS.append(Unit('enc.write_int', (ENC + 'write_int', None), contract=WRITE_INT_C, prelude=P,
                  setup=ENC_SETUP + '  unsigned char a_major; __CPROVER_assume(MAJOR_OK(a_major)); unsigned long a_value;\n',
                  args=['&obj', 'a_value', 'a_major'], props=['C06', 'C10', 'C01', 'C09'],
                  note='all 2^64 values x all fill levels x all major types'))

# ---------------------------------------------------------------- public head-only operations
PUB_REQ = '''
__CPROVER_requires(__CPROVER_w_ok($this, sizeof(*$this)))
__CPROVER_requires(ENC_INV($this))
__CPROVER_requires(g_exc == 0 && g_sink_len < (1UL << 60))
__CPROVER_requires(g_L0 == ENC_LLEN($this) && g_b0 == ENC_LBYTE($this))
__CPROVER_assigns($this->m_p, $this->m_avail, __CPROVER_object_whole($this->m_buffer), g_sink_len, g_wval)
__CPROVER_ensures(ENC_INV($this))
__CPROVER_ensures(g_exc == 0)
__CPROVER_ensures(ENC_LLEN($this) == g_L0 + $ret)
__CPROVER_ensures(g_W < g_L0 ==> ENC_LBYTE($this) == g_b0)
'''


def head_contract(V, M):
    return PUB_REQ + '''
__CPROVER_ensures($ret == HL(%(V)s))
__CPROVER_ensures((g_W >= g_L0 && g_W - g_L0 < $ret) ==> ENC_LBYTE($this) == HEAD_BYTE(%(V)s, %(M)s, g_W - g_L0))
''' % {'V': V, 'M': M}


def fixed_contract(code):
    return PUB_REQ + '''
__CPROVER_ensures($ret == 1)
__CPROVER_ensures(g_W == g_L0 ==> ENC_LBYTE($this) == (unsigned char)%s)
''' % code


PUB_SETUP = ENC_SETUP + '  g_L0 = ENC_LLEN(&obj); g_b0 = ENC_LBYTE(&obj);\n'
INL = [(ENC + 'flush_buffer', None), (ENC + 'update_buffer', None)]
SINK = ['BaseCborOutputWriter__write']

# spec of the argument of a negative integer n: -1 - n, computed without the code's ~ trick
NEGV = '(($1) < 0 ? (unsigned long)(-1L - (long)($1)) : (unsigned long)($1))'
NEGM = '(($1) < 0 ? 0x20 : 0x00)'

HEAD_OPS = [
    ('write_array_start', None, '$1', '0x80'),
    ('write_map_start', None, '$1', '0xa0'),
    ('write', 'std::size_t (bool)', '(($1) ? 21UL : 20UL)', '0xe0'),
    ('write', 'std::size_t (uint8_t)', '((unsigned long)$1)', '0x00'),
    ('write', 'std::size_t (uint16_t)', '((unsigned long)$1)', '0x00'),
    ('write', 'std::size_t (uint32_t)', '((unsigned long)$1)', '0x00'),
    ('write', 'std::size_t (uint64_t)', '((unsigned long)$1)', '0x00'),
    ('write', 'std::size_t (int8_t)', NEGV, NEGM),
    ('write', 'std::size_t (int16_t)', NEGV, NEGM),
    ('write', 'std::size_t (int32_t)', NEGV, NEGM),
    ('write', 'std::size_t (int64_t)', NEGV, NEGM),
]
for name, sig, V, M in HEAD_OPS:
    uid = 'enc.' + name + ('' if sig is None else '.' + sig.split('(')[1].rstrip(')'))
    UNITS.append(Unit(uid, (ENC + name, sig), contract=head_contract(V, M), prelude=P, setup=PUB_SETUP,
                      inline=INL, stubs=SINK, replace=['enc.write_int'], props=['C06', 'C10', 'C01', 'C09'],
                      note='all argument values x all fill levels 0..2048 x arbitrary watched output index'))

for name, code in [('write_indef_array_start', '0x9f'), ('write_indef_map_start', '0xbf'), ('write_break', '0xff')]:
    UNITS.append(Unit('enc.' + name, (ENC + name, None), contract=fixed_contract(code), prelude=P, setup=PUB_SETUP,
                      inline=INL, stubs=SINK, props=['C06', 'C10', 'C01', 'C02', 'C13'] + (['C15'] if name == 'write_break' else [])))

# ---------------------------------------------------------------- flush_buffer (also checked on its own)
FLUSH_C = '''
__CPROVER_requires(__CPROVER_w_ok($this, sizeof(*$this)))
__CPROVER_requires(ENC_INV($this))
__CPROVER_requires(g_exc == 0 && g_sink_len < (1UL << 60))
__CPROVER_requires(g_L0 == ENC_LLEN($this) && g_b0 == ENC_LBYTE($this))
__CPROVER_assigns($this->m_p, $this->m_avail, g_sink_len, g_wval)
__CPROVER_ensures(ENC_INV($this) && ENC_FILL($this) == 0 && $this->m_avail == ENC_BUF)
__CPROVER_ensures(g_sink_len == g_L0)
__CPROVER_ensures(g_W < g_L0 ==> ENC_LBYTE($this) == g_b0)
__CPROVER_ensures(g_exc == 0)
'''
UNITS.append(Unit('enc.flush_buffer', (ENC + 'flush_buffer', None), contract=FLUSH_C, prelude=P, setup=PUB_SETUP,
                  stubs=SINK, props=['C06', 'C10', 'C13', 'C01', 'C02', 'C15']))

# ---------------------------------------------------------------- write_string (loop contract, unbounded length)
STR_REQ = '''
__CPROVER_requires(__CPROVER_w_ok($this, sizeof(*$this)))
__CPROVER_requires(ENC_INV($this))
__CPROVER_requires(g_exc == 0 && g_sink_len < (1UL << 60))
__CPROVER_requires($2 < (1UL << 48))
__CPROVER_requires(g_L0 == ENC_LLEN($this) && g_b0 == ENC_LBYTE($this))
__CPROVER_assigns($this->m_p, $this->m_avail, __CPROVER_object_whole($this->m_buffer), g_sink_len, g_wval)
__CPROVER_ensures(ENC_INV($this))
__CPROVER_ensures(g_exc == 0)
__CPROVER_ensures(g_W < g_L0 ==> ENC_LBYTE($this) == g_b0)
'''
WRITE_STRING_C = STR_REQ.replace('g_L0', 'g_sL0').replace('g_b0', 'g_sb0').replace('(1UL << 60)', '(1UL << 61)') + '''
__CPROVER_requires(__CPROVER_r_ok($1, $2) && OFF($1) == 0 && !SAME($1, $this->m_buffer) && g_src == $1)
__CPROVER_ensures(ENC_LLEN($this) == g_sL0 + $2)
__CPROVER_ensures((g_W >= g_sL0 && g_W - g_sL0 < $2) ==> ENC_LBYTE($this) == $1[g_W - g_sL0])
'''
WRITE_STRING_LOOP = '''
  __CPROVER_assigns($L1, $L2, $this->m_p, $this->m_avail, __CPROVER_object_whole($this->m_buffer), g_sink_len, g_wval)
  __CPROVER_loop_invariant(ENC_INV($this) && g_exc == 0 && g_sL0 < (1UL << 61) + ENC_BUF && g_sink_len < (1UL << 62))
  __CPROVER_loop_invariant($L2 <= $2 && SAME($L1, $1) && OFF($L1) == $2 - $L2)
  __CPROVER_loop_invariant(ENC_LLEN($this) == g_sL0 + ($2 - $L2))
  __CPROVER_loop_invariant(g_W < g_sL0 ==> ENC_LBYTE($this) == g_sb0)
  __CPROVER_loop_invariant((g_W >= g_sL0 && g_W - g_sL0 < $2 - $L2) ==> ENC_LBYTE($this) == g_src[g_W - g_sL0])
  __CPROVER_decreases($L2, ENC_BUF - $this->m_avail)
'''
STR_SETUP = PUB_SETUP + '''
  unsigned long a_size; __CPROVER_assume(a_size < (1UL << 48));
  unsigned char *a_str = malloc(a_size);
  g_src = a_str;
  g_sL0 = ENC_LLEN(&obj); g_sb0 = ENC_LBYTE(&obj);
'''
UNITS.append(Unit('enc.write_string', (ENC + 'write_string', None), contract=WRITE_STRING_C, loops={1: WRITE_STRING_LOOP},
                  prelude=P, setup=STR_SETUP, args=['&obj', 'a_str', 'a_size'], inline=INL, stubs=SINK + ['lib_memcpy'],
                  props=['C06', 'C10', 'C01', 'C09'], timeout=1500, tier='quick', split=True,
                  bind='g_sL0 = ENC_LLEN($A0); g_sb0 = ENC_LBYTE($A0); g_src = $A1;',
                  note='string of any length < 2^48, any fill level, any number of intermediate flushes; '
                       'loop closed by invariant + lexicographic decreases, no unwinding'))


def string_contract(major):
    return STR_REQ.replace('g_sink_len, g_wval)', 'g_sink_len, g_wval, g_sL0, g_sb0, g_src)') + '''
__CPROVER_requires($1 == 0 || (__CPROVER_r_ok($1, $2) && OFF($1) == 0 && !SAME($1, $this->m_buffer)))
__CPROVER_ensures($1 == 0 ==> ($ret == 0 && ENC_LLEN($this) == g_L0))
__CPROVER_ensures($1 != 0 ==> ($ret == HL($2) + $2 && ENC_LLEN($this) == g_L0 + $ret))
__CPROVER_ensures(($1 != 0 && g_W >= g_L0 && g_W - g_L0 < HL($2)) ==> ENC_LBYTE($this) == HEAD_BYTE($2, %(M)s, g_W - g_L0))
__CPROVER_ensures(($1 != 0 && g_W >= g_L0 + HL($2) && g_W - g_L0 - HL($2) < $2) ==> ENC_LBYTE($this) == $1[g_W - g_L0 - HL($2)])
''' % {'M': major}


STR2_SETUP = PUB_SETUP + '''
  unsigned long a_size; __CPROVER_assume(a_size < (1UL << 48));
  unsigned char *a_str = malloc(a_size);
  _Bool isnull; if (isnull) a_str = 0;
'''
for name, major in [('write_bytestring', '0x40'), ('write_textstring', '0x60')]:
    UNITS.append(Unit('enc.' + name, (ENC + name, 'std::size_t (const unsigned char *, std::size_t)'),
                      contract=string_contract(major), prelude=P, setup=STR2_SETUP, args=['&obj', 'a_str', 'a_size'],
                      inline=INL, stubs=SINK, replace=['enc.write_int', 'enc.write_string'], props=['C06', 'C10', 'C01', 'C09'],
                      timeout=900))

TRUSTED_BASE = [
    'A1 output sink: BaseCborOutputWriter::write(p,n) accepts exactly p[0..n) in order (ghost g_sink_len, watched byte g_W/g_wval)',
    'A3 memcpy: destination object arbitrary afterwards except one arbitrary watched byte, which equals the source byte',
    'A12 machine model LP64, two\'s complement; clang 14 AST is the semantics of the source',
    'A13(i) per-byte statement with one arbitrary watched index stands for all indices',
    'cdns2c lowering (DESIGN.md section 3); CBMC 6.11 / goto-instrument dfcc; SAT/SMT back ends',
]
ASSUMPTIONS = [
    'the output sink does not fail in these units (faults are C16)',
    'bytes already accepted by the sink < 2^60; string length < 2^48',
    'virtual dispatch m_cos->write is abstracted to the sink model A1',
]

# ---------------------------------------------------------------- end of an output: rotate_output<T>, ~CdnsEncoder (C13, C15, C16)
ROT_REQ = '''
__CPROVER_requires(__CPROVER_w_ok($this, sizeof(*$this)))
__CPROVER_requires(ENC_INV($this))
__CPROVER_requires(g_exc == 0 && g_sink_len < (1UL << 60) && g_rot == 0 && !g_rot_with_pending && !g_sink_fail)
__CPROVER_requires(g_L0 == ENC_LLEN($this) && g_b0 == ENC_LBYTE($this))
__CPROVER_assigns($this->m_p, $this->m_avail, g_sink_len, g_wval, g_rot, g_rot_with_pending, g_sink_fail, g_open_fail, g_exc)
'''
EROT_C = ROT_REQ + '''
__CPROVER_ensures(g_exc == 0 || g_exc == EXC_CborOutputException)
__CPROVER_ensures(!g_rot_with_pending)
__CPROVER_ensures(g_exc == 0 ==> (g_rot == 1 && ENC_INV($this) && ENC_FILL($this) == 0 && g_sink_len == g_L0))
__CPROVER_ensures((g_exc == 0 && g_W < g_L0) ==> ENC_LBYTE($this) == g_b0)
__CPROVER_ensures(g_sink_fail ==> (g_exc != 0 && g_rot == 0))
__CPROVER_ensures(g_sink_fail ==> (ENC_INV($this) && ENC_LLEN($this) == g_L0 && ENC_LBYTE($this) == g_b0))
'''
EDTOR_C = ROT_REQ + '''
__CPROVER_ensures(g_exc == 0 && g_rot == 0)
__CPROVER_ensures(!g_sink_fail ==> (ENC_FILL($this) == 0 && g_sink_len == g_L0))
__CPROVER_ensures((!g_sink_fail && g_W < g_L0) ==> ENC_LBYTE($this) == g_b0)
'''
ROT_SETUP = PUB_SETUP + '  g_rot = 0; g_rot_with_pending = 0; g_sink_fail = 0;\n'
for tag, mn, arg, decl in [('fd', '_ZN4CDNS11CdnsEncoder13rotate_outputIiEEvRKT_', '&a_fd', 'int a_fd;'),
                           ('string', '_ZN4CDNS11CdnsEncoder13rotate_outputINSt7__cxx1112basic_stringIcSt11char_traitsIcESaIcEEEEEvRKT_', '&a_s', 'cstring a_s;')]:
    UNITS.append(Unit('enc.rotate_output.' + tag, ('@' + mn, None), contract=EROT_C, prelude='byte_enc_rot.h', opaque={'boost::any': 'struct any'},
                      setup=ROT_SETUP + '  ' + decl + '\n', args=['&obj', arg], inline=[(ENC + 'flush_buffer', None)],
                      stubs=SINK + ['BaseCborOutputWriter__rotate_output', 'any__from_\\w+'], props=['C13', 'C15', 'C16', 'C02'],
                      post='  if (g_exc != 0) { CANARY("failure reachable"); }\n  if (g_sink_fail) { CANARY("rejected write reachable"); }',
                      note='every byte produced for the old output is handed to the sink before the sink is rotated; buffer empty afterwards; a rejected '
                           'write propagates, the sink is then not rotated and the buffered bytes are kept'))
# C16, recovery clause: "after such an exception ... a subsequent rotate_output to a healthy destination succeeds". The failure of the old output has
# been reported by an earlier call; whatever the old output does now (it may reject every write), rotation to an output that can be opened returns normally.
EREC_C = ROT_REQ + '''
__CPROVER_requires(!g_open_fail)
__CPROVER_ensures(!g_open_fail ==> (g_exc == 0 && g_rot == 1))
'''
for tag, mn, arg, decl in [('fd', '_ZN4CDNS11CdnsEncoder13rotate_outputIiEEvRKT_', '&a_fd', 'int a_fd;')]:   # named outputs never report a rejected write (known finding of out.file.rotate_output.c16)
    UNITS.append(Unit('enc.rotate_output.%s.recover' % tag, ('@' + mn, None), contract=EREC_C, prelude='byte_enc_rot.h', opaque={'boost::any': 'struct any'},
                      setup=ROT_SETUP + '  g_open_fail = 0;\n  ' + decl + '\n', args=['&obj', arg], inline=[(ENC + 'flush_buffer', None)],
                      stubs=SINK + ['BaseCborOutputWriter__rotate_output', 'any__from_\\w+'], props=['C16'],
                      note='recovery: an output that rejects writes (its failure was reported by an earlier call) can be left by rotating to a healthy one '
                           '(known finding: rotate_output first flushes the staging buffer to the old output and throws again, every time)'))
UNITS.append(Unit('enc.dtor', ('@_ZN4CDNS11CdnsEncoderD1Ev', None), contract=EDTOR_C, prelude='byte_enc_rot.h', setup=ROT_SETUP, args=['&obj'],
                  inline=[(ENC + 'flush_buffer', None)], stubs=SINK, props=['C15', 'C13'],
                  note='destruction flushes the staging buffer (every produced byte reaches the sink unless the sink rejects it) and never throws'))

# ---------------------------------------------------------------- constructor: the writer chain matches the requested compression (C14), staging buffer empty (base case of ENC_INV)
ECTOR_C = '''
__CPROVER_requires(__CPROVER_r_ok($1, sizeof(*$1)) && g_exc == 0 && g_mkw_count == 0)
__CPROVER_assigns(g_mkw_count, g_mkw_kind, g_exc)
__CPROVER_ensures(g_exc == 0 || g_exc == EXC_CborOutputException || g_exc == EXC_CdnsEncoderException)
__CPROVER_ensures((g_exc == EXC_CdnsEncoderException) == ((unsigned char)$2 > 2))
__CPROVER_ensures((unsigned char)$2 <= 2 ==> (g_mkw_count == 1 && g_mkw_kind == (int)(unsigned char)$2))
__CPROVER_ensures((unsigned char)$2 > 2 ==> g_mkw_count == 0)
__CPROVER_ensures(g_exc == 0 ==> ($ret.m_avail == 2048 && $ret.m_p == $ret.m_buffer))
'''
for tag, mn, decl in [('fd', '_ZN4CDNS11CdnsEncoderC1IiEERKT_NS_21CborOutputCompressionE', 'int a_out;'),
                      ('string', '_ZN4CDNS11CdnsEncoderC1INSt7__cxx1112basic_stringIcSt11char_traitsIcESaIcEEEEERKT_NS_21CborOutputCompressionE', 'cstring a_out;')]:
    UNITS.append(Unit('enc.ctor.' + tag, ('@' + mn, None), contract=ECTOR_C, prelude='byte_enc_ctor.h', opaque={'boost::any': 'struct any'},
                      stubs=['make_unique__\\w+', 'uptr_assign', 'lib_memset', 'mkw'],
                      setup='  ' + decl + ' unsigned char a_c;\n  g_mkw_count = 0;\n', args=['&a_out', 'a_c'], props=['C14', 'C06'], timeout=300,
                      post='  if (g_exc == EXC_CdnsEncoderException) { CANARY("unknown compression reachable"); }',
                      note='a new encoder creates exactly one writer, of the class the requested compression names (none / gzip / xz; any other value is refused), '
                           'and starts with an empty staging buffer of 2048 bytes'))
