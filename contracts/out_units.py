"""Output pipeline: compression writers (C14), descriptor writer (C16). File writer ordering (C15): see DESIGN 12."""
from driver import Unit

P = 'out.h'
OPQ = {'z_stream': 'struct z_stream_s', 'z_stream_s': 'struct z_stream_s', 'boost::any': 'struct any'}
G = 'GzipCborOutputWriter::'
ZASSIGN = '$this->m_gzip, g_z_in, g_z_out, g_fwd, g_fwd_bad, g_z_finished, g_z_open, g_z_err, g_lost, g_scratch, g_scratch_len, g_scratch_used, g_exc'
WG_C = '''
__CPROVER_requires(__CPROVER_w_ok($this, sizeof(*$this)) && g_exc == 0 && g_z_open && !g_fwd_bad)
__CPROVER_requires(g_fwd == g_z_out)
__CPROVER_requires($1 <= (1UL << 19))
__CPROVER_assigns(''' + ZASSIGN + ''')
__CPROVER_ensures(g_exc == 0 || g_exc == EXC_CborOutputException)
__CPROVER_ensures(g_exc == 0 ==> (g_fwd == g_z_out && !g_fwd_bad && g_z_open && ($ret == 0 || $ret == 1)))
__CPROVER_ensures(g_exc == 0 ==> $this->m_gzip.avail_in <= @AI0 && g_z_in - @ZI0 == @AI0 - $this->m_gzip.avail_in)
__CPROVER_ensures((g_exc == 0 && @AI0 > 0) ==> $this->m_gzip.avail_in < @AI0)
__CPROVER_ensures($ret == 1 ==> ($2 == 4 && g_z_finished))
__CPROVER_ensures(g_exc != 0 ==> (g_lost || g_z_err))
'''
GH = [('unsigned int', 'AI0', '$this->m_gzip.avail_in'), ('unsigned long', 'ZI0', 'g_z_in')]
SETUP = '''  static struct GzipCborOutputWriter obj; static struct BaseCborOutputWriter inner;
  obj.m_writer = &inner;
  __CPROVER_assume(g_z_open && !g_fwd_bad && g_fwd == g_z_out);
  g_inner_fail_ok = 1;
  static unsigned char inbuf[65536]; unsigned long off; __CPROVER_assume(off <= 65536 && obj.m_gzip.avail_in <= 65536 - off);
  obj.m_gzip.next_in = inbuf + off;
'''
UNITS = [Unit('out.gzip.write_gzip', (G + 'write_gzip', None), contract=WG_C, prelude=P, opaque=OPQ, ghost=GH,
              stubs=['lib_deflate', 'BaseCborOutputWriter__write'], setup=SETUP + '  unsigned long a_in; int a_act;\n  __CPROVER_assume(a_in <= (1UL << 19));\n',
              args=['&obj', 'a_in', 'a_act'], props=['C14'], timeout=600,
              post='  if (g_exc != 0) { CANARY("failure reachable"); }',
              note='one deflate step: every byte the compressor produced is forwarded to the inner writer exactly once, from the start of the scratch '
                   'buffer; scratch size in_size + in_size/3 + 128 <= 1 MiB for chunks <= 512 KiB (callers pass slices <= 512 KiB: precondition discharged at every call site)')]

# ---------------------------------------------------------------- write(p, size): loop until all input is consumed
W_C = '''
__CPROVER_requires(__CPROVER_w_ok($this, sizeof(*$this)) && g_exc == 0 && g_z_open && !g_fwd_bad)
__CPROVER_requires(g_fwd == g_z_out && g_z_in < (1UL << 60) && $this->m_gzip.avail_in == 0)
__CPROVER_requires($2 <= (1UL << 50) && __CPROVER_r_ok($1, $2))
__CPROVER_assigns(''' + ZASSIGN + ''', @BINDSX)
__CPROVER_ensures(g_exc == 0 || g_exc == EXC_CborOutputException)
__CPROVER_ensures(g_exc == 0 ==> ($this->m_gzip.avail_in == 0 && g_z_in == @ZI0 + @N0 && g_fwd == g_z_out && !g_fwd_bad))
'''
# loop 1: slices of the input; loop 2: deflate steps of one slice.  locals: $L1 max_slice, $L2 slice
W_LOOP = '''
  __CPROVER_assigns($1, $2, ''' + ZASSIGN + ''', @BINDS)
  __CPROVER_loop_invariant(g_exc == 0 && g_z_open && !g_fwd_bad && g_fwd == g_z_out && $L1 > 0 && $L1 <= 524288)
  __CPROVER_loop_invariant($2 <= @N0 && g_z_in == @ZI0 + (@N0 - $2) && ($2 == @N0 || $this->m_gzip.avail_in == 0))
  __CPROVER_loop_invariant(__CPROVER_same_object($1, @P0) && __CPROVER_POINTER_OFFSET($1) == __CPROVER_POINTER_OFFSET(@P0) + (@N0 - $2))
  __CPROVER_decreases($2)
'''
W_LOOP2 = '''
  __CPROVER_assigns(''' + ZASSIGN + ''', @BINDS)
  __CPROVER_loop_invariant(g_exc == 0 && g_z_open && !g_fwd_bad && g_fwd == g_z_out && $this->m_gzip.avail_in <= $L2 && $L2 <= 524288 && $L2 <= $2 && $L2 > 0)
  __CPROVER_loop_invariant(g_z_in + $this->m_gzip.avail_in == @ZI0 + (@N0 - $2) + $L2)
  __CPROVER_decreases($this->m_gzip.avail_in)
'''
WGH = [('unsigned long', 'ZI0', 'g_z_in'), ('unsigned long', 'N0', '$2'), ('char *', 'P0', '$1')]
WSET = '  unsigned long a_n; __CPROVER_assume(a_n <= (1UL << 50));\n  char *data = malloc(a_n);\n  __CPROVER_assume(g_z_in < (1UL << 60) && obj.AVAIL == 0);\n'
UNITS.append(Unit('out.gzip.write', (G + 'write', None), contract=W_C.replace(', @BINDSX', ''), loops={'1': W_LOOP, '1.1': W_LOOP2}, prelude=P, opaque=OPQ,
                  ghost=WGH, replace=['out.gzip.write_gzip'], stubs=['lib_deflate', 'BaseCborOutputWriter__write'],
                  setup=SETUP + WSET.replace('AVAIL', 'm_gzip.avail_in'),
                  args=['&obj', 'data', 'a_n'], props=['C14'], timeout=600, post='  if (g_exc != 0) { CANARY("failure reachable"); }',
                  note='every input byte is offered to deflate exactly once (avail_in == 0 on return, consumed == size), everything produced is '
                       'forwarded; termination under the assumed progress of deflate (A10)'))

# ---------------------------------------------------------------- close(): finish the stream, then release it
CL_C = '''
__CPROVER_requires(__CPROVER_w_ok($this, sizeof(*$this)) && g_exc == 0 && !g_fwd_bad && g_fwd == g_z_out)
__CPROVER_requires(($this->m_gzip.state != 0) == g_z_open && $this->m_gzip.avail_in == 0)
__CPROVER_assigns(''' + ZASSIGN + ''', @BINDSX)
__CPROVER_ensures(g_exc == 0)
__CPROVER_ensures((@OPEN0 && !g_lost && !g_z_err) ==> (g_z_finished && !g_z_open && g_fwd == g_z_out && !g_fwd_bad))
__CPROVER_ensures(!@OPEN0 ==> (g_fwd == g_z_out && !g_z_open && !g_lost && !g_z_err))
'''
CL_LOOP = '''
  __CPROVER_assigns(''' + ZASSIGN + ''', @BINDS)
  __CPROVER_loop_invariant(g_exc == 0 && g_z_open && !g_fwd_bad && g_fwd == g_z_out && $this->m_gzip.avail_in == 0)
'''
UNITS.append(Unit('out.gzip.close', (G + 'close', None), contract=CL_C.replace(', @BINDSX', ''), loops={1: CL_LOOP}, prelude=P, opaque=OPQ,
                  ghost=[('_Bool', 'OPEN0', 'g_z_open')], replace=['out.gzip.write_gzip'], stubs=['lib_deflate', 'lib_deflateEnd', 'BaseCborOutputWriter__write'],
                  setup=SETUP.replace('__CPROVER_assume(g_z_open && ', '__CPROVER_assume(') + '  __CPROVER_assume((obj.m_gzip.state != 0) == g_z_open && obj.m_gzip.avail_in == 0);\n  g_lost = 0; g_z_err = 0;\n',
                  args=['&obj'], props=['C14', 'C16'], timeout=600,
                  note='FINISH is repeated until STREAM_END, then deflateEnd; only if a stream is open; a failure of the inner writer is swallowed here '
                       '(g_lost): see the C16 finding. Termination rests on zlib eventually returning STREAM_END (A10).'))
ROT_C = '''
__CPROVER_requires(__CPROVER_w_ok($this, sizeof(*$this)) && g_exc == 0 && !g_fwd_bad && g_fwd == g_z_out && !g_rot_bad)
__CPROVER_requires(($this->m_gzip.state != 0) == g_z_open && $this->m_gzip.avail_in == 0 && !g_lost)
__CPROVER_assigns(''' + ZASSIGN + ''', g_rot_bad, g_rotations, @BINDSX)
__CPROVER_ensures(g_exc == 0 || g_exc == EXC_CborOutputException)
__CPROVER_ensures(g_rotations == @R0 + 1)
__CPROVER_ensures((!g_lost && !g_z_err) ==> !g_rot_bad)
__CPROVER_ensures(g_exc == 0 ==> (g_z_open && g_z_in == 0 && g_z_out == 0 && g_fwd == 0))
'''
ROT_C16 = ROT_C + '__CPROVER_ensures(g_exc == 0 ==> !g_lost)\n'
UNITS.append(Unit('out.gzip.rotate_output', (G + 'rotate_output', None), contract=ROT_C.replace(', @BINDSX', ''), prelude=P, opaque=OPQ,
                  ghost=[('unsigned long', 'R0', 'g_rotations')], inline=[(G + 'open', None)], replace=['out.gzip.close'],
                  stubs=['lib_deflate', 'lib_deflateEnd', 'lib_deflateInit2_', 'BaseCborOutputWriter__write', 'BaseCborOutputWriter__rotate_output'],
                  setup=SETUP.replace('__CPROVER_assume(g_z_open && ', '__CPROVER_assume(') + '  __CPROVER_assume((obj.m_gzip.state != 0) == g_z_open && obj.m_gzip.avail_in == 0 && !g_rot_bad);\n  g_lost = 0; g_z_err = 0; static struct any val;\n',
                  args=['&obj', '&val'], props=['C14', 'C13', 'C15'], timeout=600,
                  note='close, rotate the inner writer, open: the inner writer is rotated only with a finished stream whose output was forwarded completely; one stream per output'))
import copy
_u = copy.copy(UNITS[-1]); _u.id = 'out.gzip.rotate_output.c16'; _u.contract = ROT_C16.replace(', @BINDSX', ''); _u.props = ['C16']
_u.note = 'as out.gzip.rotate_output plus the C16 statement: a normal return implies that no byte of the closed output was rejected (known finding: close() swallows the failure)'
UNITS.append(_u)

# ---------------------------------------------------------------- descriptor writer (C16) and file writer (C15)
WI_C = '''
__CPROVER_requires(__CPROVER_w_ok($this, sizeof(*$this)) && g_exc == 0 && !g_lost && __CPROVER_r_ok($1, $2) && $2 < (1UL << 31))
__CPROVER_requires(g_os_accepted == 0 && !g_w_bad && !g_w_err && g_w_base == $1 && g_w_size == $2)
__CPROVER_assigns(g_lost, g_os_accepted, g_w_bad, g_w_err, g_errno, g_exc)
__CPROVER_ensures(g_exc == 0 || g_exc == EXC_CborOutputException)
__CPROVER_ensures(g_exc == 0 ==> (g_os_accepted == $2 && !g_w_bad))
__CPROVER_ensures((g_os_accepted == $2 && !g_w_bad && !g_w_err) ==> g_exc == 0)
'''
UNITS.append(Unit('out.fd.write', ('@_ZN4CDNS6WriterIiE5writeEPKcm', None), contract=WI_C, prelude=P, stubs=['lib_write'],
                  setup='  static struct Writer_i32 obj; static char data[4096]; unsigned long a_n; __CPROVER_assume(a_n <= 4096);\n  g_lost = 0; g_os_accepted = 0; g_w_bad = 0; g_w_err = 0; g_w_base = data; g_w_size = a_n;\n',
                  args=['&obj', 'data', 'a_n'], props=['C16'], timeout=300, post='  if (g_exc != 0) { CANARY("failure reachable"); }',
                  note='normal return iff the OS accepted every byte of the chunk, each offered once and in order (a rejected or short ::write that is not made up for raises CborOutputException; a correct retry loop would satisfy the same contract); sizes < 2^31: the result is compared as int'))
PART_LIT = '31338177036UL'   # identity the lowering gives the literal ".part" (crc32 of its spelling + length)
NAME_INV = "(!g_f_open || (g_f_base == __CPROVER_uninterpreted_concat($this->m_value.id, $this->m_extension.id) && g_f_path == __CPROVER_uninterpreted_concat(g_f_base, g_f_suffix) && g_f_suffix == PART_LIT))".replace('PART_LIT', PART_LIT)
WS_CLOSE = '''
__CPROVER_requires(__CPROVER_w_ok($this, sizeof(*$this)) && g_exc == 0 && !g_f_order_bad && !g_f_renamed && $this->m_out.open_ == g_f_open && !g_f_name_bad)
__CPROVER_requires(''' + NAME_INV + ''')
__CPROVER_assigns($this->m_out, g_f_open, g_f_flushed, g_f_renamed, g_f_order_bad, g_f_nrename, g_f_name_bad, g_cc, g_exc)
__CPROVER_ensures(g_exc == 0 && !g_f_order_bad && !g_f_open && !g_f_name_bad)
__CPROVER_ensures(@O0 ==> g_f_renamed)
__CPROVER_ensures(!@O0 ==> !g_f_renamed)
'''
UNITS.append(Unit('out.file.close', ('@_ZN4CDNS6WriterINSt7__cxx1112basic_stringIcSt11char_traitsIcESaIcEEEE5closeEv', None), contract=WS_CLOSE, prelude=P, opaque={'std::basic_ofstream': 'struct ofstream', 'std::basic_ostream': 'struct ofstream', 'std::basic_ios': 'struct ofstream', 'std::ios_base': 'struct ofstream'},
                  ghost=[('_Bool', 'O0', 'g_f_open')], stubs=['ofstream__\\w+', 'lib_rename', 'cstring__\\w+'],
                  setup='  static struct Writer_str obj;\n  __CPROVER_assume(!g_f_order_bad && !g_f_renamed && obj.m_out.open_ == g_f_open && !g_f_name_bad && NAME_INV_OBJ);\n', args=['&obj'],
                  props=['C15'], timeout=300,
                  note='the .part file is renamed to its final name only after flush and close of the stream, at most once per open, and not at all if no file is open'))
WS_OPQ = {'std::_Ios_Openmode': 'int', 'std::ios_base::openmode': 'int', 'std::type_info': 'struct type_info', 'std::basic_ofstream': 'struct ofstream', 'std::basic_ostream': 'struct ofstream', 'std::basic_ios': 'struct ofstream', 'std::ios_base': 'struct ofstream', 'boost::any': 'struct any'}
WS_ROT = '''
__CPROVER_requires(__CPROVER_w_ok($this, sizeof(*$this)) && __CPROVER_r_ok($1, sizeof(*$1)) && g_exc == 0 && !g_f_order_bad && !g_f_renamed && $this->m_out.open_ == g_f_open && g_f_nrename == 0 && !g_f_name_bad)
__CPROVER_requires(''' + NAME_INV + ''')
__CPROVER_assigns($this->m_out, $this->m_value, g_f_open, g_f_flushed, g_f_renamed, g_f_order_bad, g_f_nrename, g_f_name_bad, g_f_path, g_f_base, g_f_suffix, g_cc, g_exc)
__CPROVER_ensures(g_exc == 0 || g_exc == EXC_CborOutputException)
__CPROVER_ensures(!g_f_order_bad && !g_f_name_bad)
__CPROVER_ensures(($1->which == 1 && g_exc == 0) ==> (''' + NAME_INV + ''' && $this->m_value.id == $1->s.id))
__CPROVER_ensures($1->which == 1 ==> (g_f_nrename == (@O0 ? 1UL : 0UL)))
__CPROVER_ensures(($1->which != 1 && g_f_nrename == 0 && g_exc == 0) ==> g_f_open == @O0)   /* a value of the other kind: see out.file.rotate_output.c13; ignoring it is not demanded here */
__CPROVER_ensures(($1->which == 1 && g_exc == 0) ==> (g_f_open && $this->m_out.open_ && !g_f_renamed))
__CPROVER_ensures(($1->which == 1 && g_exc != 0) ==> !g_f_open)
'''
UNITS.append(Unit('out.file.rotate_output', ('@_ZN4CDNS6WriterINSt7__cxx1112basic_stringIcSt11char_traitsIcESaIcEEEE13rotate_outputERKN5boost3anyE', None), contract=WS_ROT, prelude=P, opaque=WS_OPQ,
                  inline=[('@_ZN4CDNS6WriterINSt7__cxx1112basic_stringIcSt11char_traitsIcESaIcEEEE5closeEv', None), ('@_ZN4CDNS6WriterINSt7__cxx1112basic_stringIcSt11char_traitsIcESaIcEEEE4openEv', None)],
                  ghost=[('_Bool', 'O0', 'g_f_open')], stubs=['ofstream__\\w+', 'lib_rename', 'cstring__\\w+', 'any\\w+', 'typeid__\\w+', 'type_info__\\w+'],
                  setup='  static struct Writer_str obj; static struct any val;\n  __CPROVER_assume(!g_f_order_bad && !g_f_renamed && obj.m_out.open_ == g_f_open && g_f_nrename == 0 && !g_f_name_bad && NAME_INV_OBJ);\n', args=['&obj', '&val'],
                  props=['C15'], timeout=300, post='  if (g_exc != 0) { CANARY("open failure reachable"); }',
                  note='rotation of a named file (real close() and open() bodies inlined): the file being closed is flushed and closed before it gets its final name, '
                       'exactly one rename per closed file, none if no file was open; the new .part file is opened afterwards; a failed open raises'))
WS_DTOR = '''
__CPROVER_requires(__CPROVER_w_ok($this, sizeof(*$this)) && g_exc == 0 && !g_f_order_bad && !g_f_renamed && $this->m_out.open_ == g_f_open && g_f_nrename == 0 && !g_f_name_bad)
__CPROVER_requires(''' + NAME_INV + ''')
__CPROVER_assigns($this->m_out, g_f_open, g_f_flushed, g_f_renamed, g_f_order_bad, g_f_nrename, g_f_name_bad, g_cc, g_exc)
__CPROVER_ensures(g_exc == 0 && !g_f_order_bad && !g_f_name_bad && !g_f_open && g_f_nrename == (@O0 ? 1UL : 0UL))
'''
UNITS.append(Unit('out.file.dtor', ('@_ZN4CDNS6WriterINSt7__cxx1112basic_stringIcSt11char_traitsIcESaIcEEEED1Ev', None), contract=WS_DTOR, prelude=P, opaque=WS_OPQ,
                  inline=[('@_ZN4CDNS6WriterINSt7__cxx1112basic_stringIcSt11char_traitsIcESaIcEEEE5closeEv', None)],
                  ghost=[('_Bool', 'O0', 'g_f_open')], stubs=['ofstream__\\w+', 'lib_rename', 'cstring__\\w+'],
                  setup='  static struct Writer_str obj;\n  __CPROVER_assume(!g_f_order_bad && !g_f_renamed && obj.m_out.open_ == g_f_open && g_f_nrename == 0 && !g_f_name_bad && NAME_INV_OBJ);\n', args=['&obj'],
                  props=['C15'], timeout=300,
                  note='destruction of the named-file writer: flush, close, then one rename; never throws'))
# write / open / constructor of the named-file writer
WS_WRITE = """
__CPROVER_requires(__CPROVER_w_ok($this, sizeof(*$this)) && g_exc == 0 && !g_f_order_bad && !g_f_renamed && g_f_open && $this->m_out.open_ && !g_f_name_bad)
__CPROVER_requires($2 < (1UL << 62) && g_f_wbytes < (1UL << 62) && __CPROVER_r_ok($1, $2))
__CPROVER_assigns($this->m_out, g_f_order_bad, g_f_flushed, g_f_wbytes, g_f_wsrc, g_lost, g_exc)
__CPROVER_ensures(g_exc == 0 && !g_f_order_bad && g_f_open && $this->m_out.open_ && !g_f_renamed)
__CPROVER_ensures(g_f_wbytes == @WB0 + $2 && g_f_wsrc == $1)
"""
UNITS.append(Unit('out.file.write', ('@_ZN4CDNS6WriterINSt7__cxx1112basic_stringIcSt11char_traitsIcESaIcEEEE5writeEPKcm', None), contract=WS_WRITE, prelude=P, opaque=WS_OPQ,
                  ghost=[('unsigned long', 'WB0', 'g_f_wbytes')], stubs=['ofstream__\\w+', 'cstring__\\w+'],
                  setup='  static struct Writer_str obj; static char data[4096]; unsigned long a_n; __CPROVER_assume(a_n <= 4096);\n  __CPROVER_assume(!g_f_order_bad && !g_f_renamed && g_f_open && obj.m_out.open_ && !g_f_name_bad && g_f_wbytes < (1UL << 62));\n',
                  args=['&obj', 'data', 'a_n'], props=['C15', 'C13'], timeout=300,
                  note='every byte handed to the named-file writer goes, once and from the caller\'s buffer, to the stream opened on the .part file (never to a closed or renamed file)'))
WS_OPEN = """
__CPROVER_requires(__CPROVER_w_ok($this, sizeof(*$this)) && g_exc == 0 && !g_f_order_bad && !g_f_open && !$this->m_out.open_ && !g_f_name_bad)
__CPROVER_assigns($this->m_out, g_f_open, g_f_flushed, g_f_renamed, g_f_name_bad, g_f_path, g_f_base, g_f_suffix, g_cc, g_exc)
__CPROVER_ensures(g_exc == 0 || g_exc == EXC_CborOutputException)
__CPROVER_ensures(!g_f_name_bad && !g_f_order_bad)
__CPROVER_ensures(g_exc == 0 ==> (g_f_open && $this->m_out.open_ && !g_f_renamed && """ + NAME_INV + """))
__CPROVER_ensures(g_exc != 0 ==> (!g_f_open && !$this->m_out.open_))
"""
UNITS.append(Unit('out.file.open', ('@_ZN4CDNS6WriterINSt7__cxx1112basic_stringIcSt11char_traitsIcESaIcEEEE4openEv', None), contract=WS_OPEN, prelude=P, opaque=WS_OPQ,
                  stubs=['ofstream__\\w+', 'cstring__\\w+'],
                  setup='  static struct Writer_str obj;\n  __CPROVER_assume(!g_f_order_bad && !g_f_open && !obj.m_out.open_ && !g_f_name_bad);\n', args=['&obj'],
                  props=['C15', 'C14'], timeout=300, post='  if (g_exc != 0) { CANARY("open failure reachable"); }',
                  note='the file is opened under (<name> + <extension>) + ".part" - the compressing writers pass their suffix as <extension> - and a failed open raises'))
WS_CTOR = """
__CPROVER_requires(__CPROVER_r_ok($1, sizeof(*$1)) && g_exc == 0 && !g_f_order_bad && !g_f_open && !g_f_name_bad)
__CPROVER_assigns(g_f_open, g_f_flushed, g_f_renamed, g_f_name_bad, g_f_path, g_f_base, g_f_suffix, g_cc, g_exc)
__CPROVER_ensures(g_exc == 0 || g_exc == EXC_CborOutputException)
__CPROVER_ensures(!g_f_name_bad && !g_f_order_bad)
__CPROVER_ensures(g_exc == 0 ==> ($ret.m_value.id == $1->id && $ret.m_extension.id == $2.id))
__CPROVER_ensures(g_exc == 0 ==> (g_f_open && $ret.m_out.open_ && !g_f_renamed && """ + NAME_INV.replace('$this->', '$ret.') + """))
"""
UNITS.append(Unit('out.file.ctor', ('@_ZN4CDNS6WriterINSt7__cxx1112basic_stringIcSt11char_traitsIcESaIcEEEEC1ERKS6_S6_', None), contract=WS_CTOR, prelude=P, opaque=WS_OPQ,
                  inline=[('@_ZN4CDNS6WriterINSt7__cxx1112basic_stringIcSt11char_traitsIcESaIcEEEE4openEv', None)],
                  stubs=['ofstream__\\w+', 'cstring__\\w+'],
                  setup='  static cstring a_name, a_ext;\n  __CPROVER_assume(!g_f_order_bad && !g_f_open && !g_f_name_bad);\n', args=['&a_name', 'a_ext'],
                  props=['C15', 'C14'], timeout=300, post='  if (g_exc != 0) { CANARY("open failure reachable"); }',
                  note='a new named-file writer keeps the name and the extension it was given and has (<name> + <extension>) + ".part" open'))
# C15 for an output the OS has rejected bytes of: "the file is given its final name only after every byte has been handed to the operating system"
WS_C15F = """
__CPROVER_requires(__CPROVER_w_ok($this, sizeof(*$this)) && g_exc == 0 && !g_f_order_bad && !g_f_renamed && $this->m_out.open_ == g_f_open && !g_f_name_bad)
__CPROVER_requires(g_f_open && $this->m_out.failed && """ + NAME_INV + """)
__CPROVER_assigns($this->m_out, g_f_open, g_f_flushed, g_f_renamed, g_f_order_bad, g_f_nrename, g_f_name_bad, g_cc, g_exc)
__CPROVER_ensures(!g_f_renamed)
"""
UNITS.append(Unit('out.file.close.c15', ('@_ZN4CDNS6WriterINSt7__cxx1112basic_stringIcSt11char_traitsIcESaIcEEEE5closeEv', None), contract=WS_C15F, prelude=P, opaque=WS_OPQ,
                  stubs=['ofstream__\\w+', 'lib_rename', 'cstring__\\w+'],
                  setup='  static struct Writer_str obj;\n  __CPROVER_assume(!g_f_order_bad && !g_f_renamed && obj.m_out.open_ == g_f_open && !g_f_name_bad && g_f_open && obj.m_out.failed && NAME_INV_OBJ);\n', args=['&obj'],
                  props=['C15'], timeout=300,
                  note='a named output whose stream has rejected bytes (failbit) must not be given its final name (known finding: close() never looks at the stream state)'))
WS_R16 = '''
__CPROVER_requires(__CPROVER_w_ok($this, sizeof(*$this)) && __CPROVER_r_ok($1, sizeof(*$1)) && g_exc == 0 && !g_f_order_bad && !g_f_renamed && $this->m_out.open_ == g_f_open && g_f_nrename == 0)
__CPROVER_requires($1->which == 1 && g_f_open && ($this->m_out.failed != 0) == (g_lost != 0))
__CPROVER_assigns($this->m_out, $this->m_value, g_f_open, g_f_flushed, g_f_renamed, g_f_order_bad, g_f_nrename, g_f_name_bad, g_f_path, g_f_base, g_f_suffix, g_cc, g_lost, g_exc)
__CPROVER_ensures(@L0 ==> g_exc != 0)
'''
UNITS.append(Unit('out.file.rotate_output.c16', ('@_ZN4CDNS6WriterINSt7__cxx1112basic_stringIcSt11char_traitsIcESaIcEEEE13rotate_outputERKN5boost3anyE', None), contract=WS_R16, prelude=P, opaque=WS_OPQ,
                  inline=[('@_ZN4CDNS6WriterINSt7__cxx1112basic_stringIcSt11char_traitsIcESaIcEEEE5closeEv', None), ('@_ZN4CDNS6WriterINSt7__cxx1112basic_stringIcSt11char_traitsIcESaIcEEEE4openEv', None)],
                  ghost=[('_Bool', 'L0', 'g_lost')], stubs=['ofstream__\\w+', 'lib_rename', 'cstring__\\w+', 'any\\w+', 'typeid__\\w+', 'type_info__\\w+'],
                  setup='  static struct Writer_str obj; static struct any val;\n  __CPROVER_assume(!g_f_order_bad && !g_f_renamed && obj.m_out.open_ == g_f_open && g_f_nrename == 0 && val.which == 1 && g_f_open && (obj.m_out.failed != 0) == (g_lost != 0));\n', args=['&obj', '&val'],
                  props=['C16'], timeout=300,
                  note='named output whose stream already rejected bytes (failbit set): the rotate_output that closes it must not return normally (known finding)'))
TRUSTED_BASE = ['A10 zlib deflate/deflateInit2/deflateEnd per the zlib manual (consumes a prefix of next_in, produces a prefix of next_out, updates the four fields; '
                'progress and eventual Z_STREAM_END assumed); decompress(output) == input rests on zlib itself',
                'A11 std::ofstream / std::rename / ::write / fstat as ghost event automata with nondeterministic failures; POSIX rename atomicity',
                'A1 inner writer (virtual BaseCborOutputWriter) accepts p[0..n) in order; boost::any as a tagged union',
                'VLA stack use is modelled only as the obligation "<= 1 MiB per call"', 'cdns2c lowering; CBMC 6.11 dfcc; cadical']
ASSUMPTIONS = ['chunks < 2^50 bytes', 'file names are uninterpreted concatenations: <name> + <extension> + ".part" is checked, and that the compressing writers pass ".gz" / ".xz" as <extension>; the characters of <name> are not modelled']

# ---------------------------------------------------------------- XZ twins (same contracts, lzma_stream fields)
def xz(text):
    return (text.replace('m_gzip.state', 'm_lzma.internal').replace('m_gzip', 'm_lzma').replace('$2 == 4', '$2 == 3'))


XOPQ = {'lzma_stream': 'struct lzma_stream_s', 'boost::any': 'struct any', 'lzma_action': 'int', 'lzma_ret': 'int'}
X = 'XzCborOutputWriter::'
XSETUP = SETUP.replace('GzipCborOutputWriter', 'XzCborOutputWriter').replace('m_gzip', 'm_lzma')
XGH = [('unsigned long', 'AI0', '$this->m_lzma.avail_in'), ('unsigned long', 'ZI0', 'g_z_in')]
UNITS.append(Unit('out.xz.write_lzma', (X + 'write_lzma', None), contract=xz(WG_C), prelude=P, opaque=XOPQ, ghost=XGH,
                  stubs=['lib_lzma_code', 'BaseCborOutputWriter__write'], setup=XSETUP + '  unsigned long a_in; int a_act;\n  __CPROVER_assume(a_in <= (1UL << 19));\n',
                  args=['&obj', 'a_in', 'a_act'], props=['C14'], timeout=600, post='  if (g_exc != 0) { CANARY("failure reachable"); }',
                  note='one lzma_code step: as out.gzip.write_gzip'))
UNITS.append(Unit('out.xz.write', (X + 'write', None), contract=xz(W_C).replace(', @BINDSX', ''), loops={'1': xz(W_LOOP), '1.1': xz(W_LOOP2)}, prelude=P, opaque=XOPQ,
                  ghost=WGH, replace=['out.xz.write_lzma'], stubs=['lib_lzma_code', 'BaseCborOutputWriter__write'],
                  setup=XSETUP + WSET.replace('AVAIL', 'm_lzma.avail_in'),
                  args=['&obj', 'data', 'a_n'], props=['C14'], timeout=600, post='  if (g_exc != 0) { CANARY("failure reachable"); }',
                  note='as out.gzip.write'))
UNITS.append(Unit('out.xz.close', (X + 'close', None), contract=xz(CL_C).replace(', @BINDSX', ''), loops={1: xz(CL_LOOP)}, prelude=P, opaque=XOPQ,
                  ghost=[('_Bool', 'OPEN0', 'g_z_open')], replace=['out.xz.write_lzma'], stubs=['lib_lzma_code', 'lib_lzma_end', 'BaseCborOutputWriter__write'],
                  setup=XSETUP.replace('__CPROVER_assume(g_z_open && ', '__CPROVER_assume(') + '  __CPROVER_assume((obj.m_lzma.internal != 0) == g_z_open && obj.m_lzma.avail_in == 0);\n  g_lost = 0; g_z_err = 0;\n',
                  args=['&obj'], props=['C14', 'C16'], timeout=600, note='as out.gzip.close'))

UNITS.append(Unit('out.xz.rotate_output', (X + 'rotate_output', None), contract=xz(ROT_C).replace(', @BINDSX', ''), prelude=P, opaque=XOPQ,
                  ghost=[('unsigned long', 'R0', 'g_rotations')], inline=[(X + 'open', None)], replace=['out.xz.close'],
                  stubs=['lib_lzma_code', 'lib_lzma_end', 'lib_lzma_easy_encoder', 'BaseCborOutputWriter__write', 'BaseCborOutputWriter__rotate_output'],
                  setup=XSETUP.replace('__CPROVER_assume(g_z_open && ', '__CPROVER_assume(') + '  __CPROVER_assume((obj.m_lzma.internal != 0) == g_z_open && obj.m_lzma.avail_in == 0 && !g_rot_bad);\n  g_lost = 0; g_z_err = 0; static struct any val;\n',
                  args=['&obj', '&val'], props=['C14', 'C13', 'C15'], timeout=600, note='as out.gzip.rotate_output'))
# destructors: the compressor is finished and released (close) before the members (the inner writer) are destroyed
DT_C = CL_C
for tag, pref, opq, fx, stubs, mn in (('gzip', G, OPQ, (lambda t: t), ['lib_deflate', 'lib_deflateEnd', 'BaseCborOutputWriter__write'], '_ZN4CDNS20GzipCborOutputWriterD1Ev'),
                                       ('xz', X, XOPQ, xz, ['lib_lzma_code', 'lib_lzma_end', 'BaseCborOutputWriter__write'], '_ZN4CDNS18XzCborOutputWriterD1Ev')):
    st = SETUP if tag == 'gzip' else XSETUP
    fld = 'obj.m_gzip.state' if tag == 'gzip' else 'obj.m_lzma.internal'
    avail = 'obj.m_gzip.avail_in' if tag == 'gzip' else 'obj.m_lzma.avail_in'
    UNITS.append(Unit('out.%s.dtor' % tag, ('@' + mn, None), contract=fx(DT_C).replace(', @BINDSX', ''), prelude=P, opaque=opq,
                      ghost=[('_Bool', 'OPEN0', 'g_z_open')], replace=['out.%s.close' % tag], stubs=stubs,
                      setup=st.replace('__CPROVER_assume(g_z_open && ', '__CPROVER_assume(') + '  __CPROVER_assume((%s != 0) == g_z_open && %s == 0);\n  g_lost = 0; g_z_err = 0;\n' % (fld, avail),
                      args=['&obj'], props=['C14', 'C15'], timeout=600,
                      note='destruction finishes and releases the compressed stream (close) and never throws; the inner writer is a member and is destroyed afterwards (C++ order of destruction, not modelled)'))

# ---------------------------------------------------------------- descriptor writer: rotation
WI_ROT = '''
__CPROVER_requires(__CPROVER_w_ok($this, sizeof(*$this)) && __CPROVER_r_ok($1, sizeof(*$1)) && g_exc == 0 && g_closes == 0)
__CPROVER_assigns($this->m_value, g_closes, g_closed_fd, g_exc)
__CPROVER_ensures(g_exc == 0 || g_exc == EXC_CborOutputException)
__CPROVER_ensures(($1->which != 2 && g_exc == 0 && g_closes == 0) ==> $this->m_value == @V0)   /* a value of the other kind: see out.fd.rotate_output.c13 */
__CPROVER_ensures($1->which == 2 ==> ($this->m_value == $1->fd && g_closes == (@V0 != -1 ? 1UL : 0UL) && (@V0 == -1 || g_closed_fd == @V0)))
'''
UNITS.append(Unit('out.fd.rotate_output', ('@_ZN4CDNS6WriterIiE13rotate_outputERKN5boost3anyE', None), contract=WI_ROT, prelude=P, opaque={'boost::any': 'struct any', 'std::type_info': 'struct type_info', 'stat': 'struct stat_s'},
                  inline=[('@_ZN4CDNS6WriterIiE4openEv', None)], auto_inline=[r'Writer_i32__close'], ghost=[('int', 'V0', '$this->m_value')],
                  stubs=['lib_close', 'lib_fstat', 'any\\w+', 'typeid__\\w+', 'type_info__\\w+'],
                  setup='  static struct Writer_i32 obj; static struct any val;\n  g_closes = 0;\n', args=['&obj', '&val'], props=['C13', 'C16'], timeout=300,
                  post='  if (g_exc != 0) { CANARY("invalid descriptor reachable"); }',
                  note='descriptor output: for a descriptor value the old descriptor is closed exactly once (never -1), the new one adopted and checked with fstat (an invalid one raises)'))

# ---------------------------------------------------------------- C13: rotation to the other kind of output (file name <-> descriptor)
# The property speaks of rotations "to file names or descriptors": whenever rotate_output returns normally the output that was current must have been
# closed (it receives no further bytes). These two units state exactly that for a value of the other kind (known finding: the value is ignored silently).
WS_R13 = """
__CPROVER_requires(__CPROVER_w_ok($this, sizeof(*$this)) && __CPROVER_r_ok($1, sizeof(*$1)) && g_exc == 0 && !g_f_order_bad && !g_f_renamed && $this->m_out.open_ == g_f_open && g_f_nrename == 0 && !g_f_name_bad)
__CPROVER_requires($1->which == 2 && g_f_open && """ + NAME_INV + """)
__CPROVER_assigns($this->m_out, $this->m_value, g_f_open, g_f_flushed, g_f_renamed, g_f_order_bad, g_f_nrename, g_f_name_bad, g_f_path, g_f_base, g_f_suffix, g_cc, g_exc)
__CPROVER_ensures(g_exc == 0 ==> (g_f_nrename == 1 && !g_f_open))
"""
UNITS.append(Unit('out.file.rotate_output.c13', ('@_ZN4CDNS6WriterINSt7__cxx1112basic_stringIcSt11char_traitsIcESaIcEEEE13rotate_outputERKN5boost3anyE', None), contract=WS_R13, prelude=P, opaque=WS_OPQ,
                  inline=[('@_ZN4CDNS6WriterINSt7__cxx1112basic_stringIcSt11char_traitsIcESaIcEEEE5closeEv', None), ('@_ZN4CDNS6WriterINSt7__cxx1112basic_stringIcSt11char_traitsIcESaIcEEEE4openEv', None)],
                  stubs=['ofstream__\\w+', 'lib_rename', 'cstring__\\w+', 'any\\w+', 'typeid__\\w+', 'type_info__\\w+'],
                  setup='  static struct Writer_str obj; static struct any val;\n  __CPROVER_assume(!g_f_order_bad && !g_f_renamed && obj.m_out.open_ == g_f_open && g_f_nrename == 0 && !g_f_name_bad && val.which == 2 && g_f_open && NAME_INV_OBJ);\n', args=['&obj', '&val'],
                  props=['C13'], timeout=300,
                  note='named output rotated to a file descriptor: a normal return means the named file was completed and closed (known finding: the request is ignored, the exporter goes on writing a second document into the same file)'))
WI_R13 = """
__CPROVER_requires(__CPROVER_w_ok($this, sizeof(*$this)) && __CPROVER_r_ok($1, sizeof(*$1)) && g_exc == 0 && g_closes == 0 && $1->which == 1 && $this->m_value != -1)
__CPROVER_assigns($this->m_value, g_closes, g_closed_fd, g_exc)
__CPROVER_ensures(g_exc == 0 ==> (g_closes == 1 && g_closed_fd == @V0))
"""
UNITS.append(Unit('out.fd.rotate_output.c13', ('@_ZN4CDNS6WriterIiE13rotate_outputERKN5boost3anyE', None), contract=WI_R13, prelude=P, opaque={'boost::any': 'struct any', 'std::type_info': 'struct type_info', 'stat': 'struct stat_s'},
                  inline=[('@_ZN4CDNS6WriterIiE4openEv', None)], auto_inline=[r'Writer_i32__close'], ghost=[('int', 'V0', '$this->m_value')],
                  stubs=['lib_close', 'lib_fstat', 'any\\w+', 'typeid__\\w+', 'type_info__\\w+'],
                  setup='  static struct Writer_i32 obj; static struct any val;\n  g_closes = 0;\n  __CPROVER_assume(val.which == 1 && obj.m_value != -1);\n', args=['&obj', '&val'], props=['C13'], timeout=300,
                  note='descriptor output rotated to a file name: a normal return means the descriptor was closed (known finding: the request is ignored)'))

for _u in UNITS:
    if isinstance(getattr(_u, 'setup', None), str) and 'NAME_INV_OBJ' in _u.setup:
        _u.setup = _u.setup.replace('NAME_INV_OBJ', NAME_INV.replace('$this->', 'obj.'))

# ---------------------------------------------------------------- constructors of the compressing writers: suffix handed to the inner writer, stream opened (C14)
for _tag, _cls, _pre, _init, _lit, _opq in (
        ('gzip', 'GzipCborOutputWriter', '_ZN4CDNS20GzipCborOutputWriterC1', 'lib_deflateInit2_', '.gz', OPQ),
        ('xz', 'XzCborOutputWriter', '_ZN4CDNS18XzCborOutputWriterC1', 'lib_lzma_easy_encoder', '.xz', XOPQ)):
    for _k, _suf, _argt, _obs in (('string', 'INSt7__cxx1112basic_stringIcSt11char_traitsIcESaIcEEEEERKT_', 'cstring', 'g_mk_name == $1->id'),
                                  ('fd', 'IiEERKT_', 'int', 'g_mk_fd == *$1')):
        UNITS.append(Unit('out.%s.ctor.%s' % (_tag, _k), ('@' + _pre + _suf, None), contract="""
__CPROVER_requires(__CPROVER_r_ok($1, sizeof(*$1)) && g_exc == 0 && !g_z_open && g_mk_count == 0)
__CPROVER_assigns(g_z_open, g_z_finished, g_z_in, g_z_out, g_fwd, g_mk_count, g_mk_name, g_mk_fd, __CPROVER_object_whole(g_mk_e), g_exc)
__CPROVER_ensures(g_exc == 0 || g_exc == EXC_CborOutputException)
__CPROVER_ensures(g_mk_count == 1 && %s && g_mk_e[0] == '%s' && g_mk_e[1] == '%s' && g_mk_e[2] == '%s' && g_mk_e[3] == 0)
__CPROVER_ensures(g_exc == 0 ==> g_z_open)
""" % ((_obs,) + tuple(_lit)), prelude=P, opaque=_opq, inline=[(_cls + '::open', None)], stubs=[_init, 'make_unique__\\w+', 'uptr_assign', 'cstring__\\w+'],
                          auto_inline=[r'BaseCborOutputWriter__ctor__\w+'],
                          setup='  static %s a_out;\n  g_mk_count = 0;\n  __CPROVER_assume(!g_z_open);\n' % _argt, args=['&a_out'], props=['C14'], timeout=300,
                          post='  if (g_exc != 0) { CANARY("initialisation failure reachable"); }',
                          note='the compressing writer creates exactly one inner writer, for the given name / descriptor and with the suffix "%s", then opens the compressed stream (a failed initialisation raises)' % _lit))
