/* Text renderers (C03): std::string with real storage. A string of size n owns n + 1 bytes, the last one is NUL (C++11 [string.accessors]);
 * s[i] is defined for i <= size(), s[size()] must not be modified. */
#include "rt_common.h"
_Bool nondet_bool(void); unsigned long nondet_ulong(void); int nondet_int(void);
typedef struct { unsigned long len; char *buf; } cstring;
#define STR_INV(s) ((s)->len < (1UL << 30) && __CPROVER_r_ok((s)->buf, (s)->len + 1) && (s)->buf[(s)->len] == 0)
static inline unsigned long cstring__size(cstring *s) { return s->len; }
static inline char *cstring__data(cstring *s) { return s->buf; }
static inline char *cstring__at(cstring *s, unsigned long i)
{
  __CPROVER_assert(i <= s->len, "std::string::operator[]: index within [0, size()]");
  return &s->buf[i];
}
/* std::string(const char *p, size_t n): reads p[0..n) */
static inline cstring cstring__from_buf(char *p, unsigned long n)
{
  cstring r; r.len = 0; r.buf = 0;
  if (g_exc) return r;
  __CPROVER_assert(n < (1UL << 62), "std::string(p, n): length does not wrap around");
  __CPROVER_assert(__CPROVER_r_ok(p, n), "std::string(p, n): source range readable");
  r.len = n;
  return r;
}
/* inet_ntop(af, src, dst, size): reads 4 (AF_INET = 2) or 16 (AF_INET6 = 10) bytes of src, writes a NUL-terminated string of < size bytes or fails */
unsigned long g_ntop_len;
static inline char *lib_inet_ntop(int af, void *src, char *dst, unsigned int size)
{
  if (g_exc) return 0;
  __CPROVER_assert(af == 2 || af == 10, "inet_ntop: address family");
  __CPROVER_assert(__CPROVER_r_ok(src, af == 10 ? 16 : 4), "inet_ntop: the whole binary address (4 / 16 bytes) is readable");
  __CPROVER_assert(__CPROVER_w_ok(dst, size), "inet_ntop: destination writable");
  if (nondet_bool()) return 0;
  unsigned long k = nondet_ulong(); __CPROVER_assume(k < size && k <= (af == 10 ? 45UL : 15UL));
  dst[k] = 0; g_ntop_len = k;
  return dst;
}
static inline unsigned long lib_strlen(char *p) { __CPROVER_assert(__CPROVER_r_ok(p, g_ntop_len + 1), "strlen: NUL-terminated string"); return g_ntop_len; }
#define VLA_CHECK(bytes) __CPROVER_assert((bytes) <= (1UL << 20), "automatic storage (variable-length array) per call is at most 1 MiB")
