/* C11: equality / hash agreement of the block-table key types. CRC32 intrinsics are uninterpreted (A9).
 * hash_value<T>(T const&) hashes the OBJECT REPRESENTATION of T: for scalars that is the value; for std::string it is the
 * string object itself (pointer, size, inline buffer), which depends on where the string lives, not only on its characters. */
#include "rt_common.h"
#define SEQ_WITH_ID 1
#include "item_types.h"
unsigned long __CPROVER_uninterpreted_hval(unsigned long, unsigned int, unsigned long);
unsigned long __CPROVER_uninterpreted_hobj(unsigned long, unsigned int);
unsigned long __CPROVER_uninterpreted_hbytes(unsigned long, unsigned long, unsigned int);
unsigned long hash_value__p_u8_u32(unsigned char *v, unsigned int seed) { return __CPROVER_uninterpreted_hval(*v, seed, 1); }
unsigned long hash_value__p_u16_u32(unsigned short *v, unsigned int seed) { return __CPROVER_uninterpreted_hval(*v, seed, 2); }
unsigned long hash_value__p_u32_u32(unsigned int *v, unsigned int seed) { return __CPROVER_uninterpreted_hval(*v, seed, 4); }
unsigned long hash_value__p_u64_u32(unsigned long *v, unsigned int seed) { return __CPROVER_uninterpreted_hval(*v, seed, 8); }
/* std::string object: its bytes are determined by (address of the object, characters): two distinct objects differ in their data pointer */
unsigned long hash_value__p_str_u32(cstring *s, unsigned int seed) { return __CPROVER_uninterpreted_hobj((unsigned long)s, seed); }
/* hash over a character range: determined by the characters (content identity, length) */
static inline char *cstring__data(cstring *s) { return (char *)s->id; }
unsigned long hash_value__p_c_u64_u32(char *p, unsigned long n, unsigned int seed) { return __CPROVER_uninterpreted_hbytes((unsigned long)p, n, seed); }
