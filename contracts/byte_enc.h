/* Byte layer, encoder side: ghost model of the output sink (A1) and memcpy (A3). */
#include "rt_common.h"

struct BaseCborOutputWriter;
_Bool nondet_bool(void);

unsigned long g_sink_len;   /* bytes accepted by the sink so far */
unsigned long g_W;          /* watched logical output index (arbitrary, fixed per run) */
unsigned char g_wval;       /* value of byte g_W once it reached the sink */
unsigned char *g_buf;       /* the encoder's staging buffer object (set by the harness) */
unsigned char *g_src;       /* the source string object of write_string (set by the harness) */
_Bool g_sink_fail;          /* C16 only: the sink may fail */

/* entry bindings (T4: __CPROVER_old cannot take compound expressions) */
unsigned long g_L0;
unsigned char g_b0;
unsigned long g_sL0;       /* write_string's own entry bindings */
unsigned char g_sb0;

#define ENC_BUF 2048UL
#define ENC_FILL(e) ((unsigned long)OFF((e)->m_p))
#define ENC_INV(e) (SAME((e)->m_p, (e)->m_buffer) && OFF((e)->m_buffer) == 0 && \
                    __CPROVER_OBJECT_SIZE((e)->m_buffer) == ENC_BUF && OFF((e)->m_p) <= ENC_BUF && \
                    (e)->m_avail == ENC_BUF - OFF((e)->m_p))
#define ENC_LLEN(e) (g_sink_len + ENC_FILL(e))
#define ENC_LBYTE(e) (g_W < g_sink_len ? g_wval : ((g_W - g_sink_len) < ENC_BUF ? (e)->m_buffer[g_W - g_sink_len] : (unsigned char)0))

/* RFC 8949 section 3: head length and head bytes of (major, argument v) in preferred serialisation */
#define HL(v) ((v) <= 23UL ? 1UL : (v) <= 0xffUL ? 2UL : (v) <= 0xffffUL ? 3UL : (v) <= 0xffffffffUL ? 5UL : 9UL)
#define AI(v) ((v) <= 23UL ? (unsigned char)(v) : (v) <= 0xffUL ? (unsigned char)24 : (v) <= 0xffffUL ? (unsigned char)25 : (v) <= 0xffffffffUL ? (unsigned char)26 : (unsigned char)27)
#define HEAD_BYTE(v, major, k) ((k) == 0 ? (unsigned char)((major) | AI(v)) : (unsigned char)((v) >> (8 * (HL(v) - 1 - (k)))))
#define MAJOR_OK(m) (((m) & 0x1f) == 0)

void BaseCborOutputWriter__write(struct BaseCborOutputWriter *s, char *p, unsigned long n)
{
  if (g_exc) return;
#ifdef SINK_MAY_FAIL
  if (nondet_bool()) { g_sink_fail = 1; g_exc = EXC_CborOutputException; return; }   /* the output rejects the chunk */
#endif
  __CPROVER_assert(__CPROVER_r_ok(p, n), "sink.write: source range readable");
  if (g_W >= g_sink_len && g_W - g_sink_len < n) g_wval = (unsigned char)p[g_W - g_sink_len];
  g_sink_len += n;
}

/* A3: memcpy into the staging buffer: destination object arbitrary afterwards except the watched byte */
void *lib_memcpy(void *dst, void *src, unsigned long n)
{
  if (g_exc) return dst;
  __CPROVER_assert(__CPROVER_w_ok(dst, n), "memcpy: destination writable");
  __CPROVER_assert(__CPROVER_r_ok(src, n), "memcpy: source readable");
  __CPROVER_assert(SAME(dst, g_buf), "memcpy: destination is the staging buffer");
  unsigned long off = OFF(dst);
  _Bool wa = g_W >= g_sink_len && g_W - g_sink_len < ENC_BUF;
  unsigned long wi = g_W - g_sink_len;
  unsigned char keep = wa ? g_buf[wi] : 0;
  /* the source is read through the base pointer established by the harness: a pointer that a loop
     contract havocked and only constrained by assumption has an empty value set (DESIGN T3) */
  __CPROVER_assert(SAME(src, g_src), "memcpy: source is the string object");
  unsigned long soff = OFF(src);
  unsigned char nv = (wa && wi >= off && wi - off < n) ? g_src[soff + (wi - off)] : keep;
  __CPROVER_havoc_object(g_buf);
  if (wa) g_buf[wi] = nv;
  return dst;
}
