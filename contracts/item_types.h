/* Generic library types of the item layer (A4 optional, A5 string, A6 vector as abstract sequence). */
#ifndef ITEM_TYPES_H
#define ITEM_TYPES_H
typedef struct { unsigned long len; unsigned long id; } cstring;   /* id: abstract content identity (equal id <=> equal bytes) */
static inline unsigned long cstring__size(cstring *s) { return s->len; }
static inline cstring cstring__empty(void) { cstring s; s.len = 0; s.id = 0; return s; }

#define DECL_OPT(N, T) struct opt_##N { _Bool has; T val; }; \
  static inline T *opt_##N##__value(struct opt_##N *o) { __CPROVER_assert(o->has, "optional: value()/operator* on an empty optional"); return &o->val; }

/* abstract sequence: size, one watched element (index wi, value wv); any other element is arbitrary */
#define DECL_SEQ(N, T) struct seq_##N { unsigned long n; unsigned long wi; T wv; T cur; }; \
  static inline unsigned long seq_##N##__size(struct seq_##N *s) { return s->n; } \
  static inline T *seq_##N##__at(struct seq_##N *s, unsigned long i) { \
    __CPROVER_assert(i < s->n, "sequence element access in bounds"); \
    if (i == s->wi) return &s->wv; T fresh; s->cur = fresh; return &s->cur; } \
  static inline void seq_##N##__push_back(struct seq_##N *s, T *v) { if (g_exc) return; if (s->n == s->wi) s->wv = *v; s->n++; } \
  static inline void seq_##N##__clear(struct seq_##N *s) { s->n = 0; } \
  static inline struct seq_##N seq_##N##__empty(void) { struct seq_##N s; s.n = 0; return s; }
#define DECL_PAIR(N, A, B) struct pair_##N { A first; B second; };
#endif
