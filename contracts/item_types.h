/* Generic library types of the item layer (A4 optional, A5 string, A6 vector as abstract sequence). */
#ifndef ITEM_TYPES_H
#define ITEM_TYPES_H
typedef struct { unsigned long len; unsigned long id; } cstring;   /* id: abstract content identity (equal id <=> equal bytes) */
static inline unsigned long cstring__size(cstring *s) { return s->len; }
static inline _Bool cstring__eq(cstring *a, cstring *b) { return a->id == b->id && a->len == b->len; }
static inline cstring cstring__empty(void) { cstring s; s.len = 0; s.id = 0; return s; }
static inline void cstring__clear(cstring *s) { s->len = 0; s->id = 0; }
unsigned long __CPROVER_uninterpreted_strid(const char *);
static cstring g_lit;
static inline cstring *cstring__lit(const char *p) { g_lit.len = 5; g_lit.id = __CPROVER_uninterpreted_strid(p); return &g_lit; }

#define VAL_EQ_str(a, b) ((a).id == (b).id && (a).len == (b).len)
#define DECL_OPT(N, T) struct opt_##N { _Bool has; T val; }; \
  static inline T *opt_##N##__value(struct opt_##N *o) { __CPROVER_assert(o->has, "optional: value()/operator* on an empty optional"); return &o->val; } \
  /* boost::optional relational operators: two empty optionals are equal, an empty one differs from any value */ \
  static inline _Bool opt_##N##__eq(struct opt_##N *a, struct opt_##N *b) { return (!a->has && !b->has) || (a->has && b->has && VAL_EQ_##N(a->val, b->val)); }

#ifndef SEQ_RESERVE_CHECK
#define SEQ_RESERVE_CHECK(n)      /* readers define it: reserve() argument must not be an unchecked length field */
#endif
/* abstract sequence: size, one watched element (index wi, value wv); any other element is arbitrary */
/* add_* units observe what is stored: the last pushed value and the number of pushes per sequence type */
#ifdef CAPTURE_PUSH
#define PUSH_CAPTURE_DECL(P, N, T) T P##N##__last; unsigned long P##N##__pushes;
#define PUSH_CAPTURE(P, N, v) P##N##__last = *(v); P##N##__pushes++;
#else
#define PUSH_CAPTURE_DECL(P, N, T)
#define PUSH_CAPTURE(P, N, v)
#endif
/* SEQ_INV_<N>(p): representation invariant of every stored element (default: none); assumed for elements read, asserted for elements stored */
#ifdef SEQ_WITH_ID   /* bt.h: sequences carry an abstract content identity (equal id <=> same length and same elements), used by vector == and data() */
#define SEQ_ID_FIELD unsigned long id;
#else
#define SEQ_ID_FIELD
#endif
#define DECL_SEQ_(P, N, T) struct P##N { unsigned long n; unsigned long wi; T wv; SEQ_ID_FIELD }; \
  T P##N##__cur; /* scratch: the arbitrary element last handed out (a separate object, so element pointers have one target each) */ \
  static inline unsigned long P##N##__size(struct P##N *s) { return s->n; } \
  static inline T *P##N##__at(struct P##N *s, unsigned long i) { \
    __CPROVER_assert(i < s->n, "sequence element access in bounds"); \
    if (i == s->wi) return &s->wv; T fresh; __CPROVER_assume(SEQ_INV_##N(&fresh)); P##N##__cur = fresh; return &P##N##__cur; } \
  static inline T *P##N##__back(struct P##N *s) { \
    __CPROVER_assert(s->n > 0, "back() of a non-empty sequence"); \
    if (s->n - 1 == s->wi) return &s->wv; T fresh; __CPROVER_assume(SEQ_INV_##N(&fresh)); P##N##__cur = fresh; return &P##N##__cur; } \
  PUSH_CAPTURE_DECL(P, N, T) \
  static inline void P##N##__push_back(struct P##N *s, T *v) { if (g_exc) return; \
    __CPROVER_assert(SEQ_INV_##N(v), "stored element satisfies the sequence's element invariant"); PUSH_CAPTURE(P, N, v) if (s->n == s->wi) s->wv = *v; s->n++; } \
  static inline void P##N##__clear(struct P##N *s) { s->n = 0; } \
  static inline void P##N##__reserve(struct P##N *s, unsigned long n) { SEQ_RESERVE_CHECK(n) } \
  static inline void P##N##__assign(struct P##N *d, struct P##N *s) { *d = *s; }
#define DECL_SEQ(N, T) DECL_SEQ_(seq_, N, T) \
  static inline struct seq_##N seq_##N##__empty(void) { struct seq_##N s; s.n = 0; return s; }
/* A7 BlockTable<T> as seen by CdnsBlock: a sequence in index order (its own implementation: bt.* units) */
#define DECL_BT(N, T) DECL_SEQ_(bt_, N, T) \
  static inline unsigned long BlockTable_##N##__size(struct bt_##N *s) { return s->n; } \
  static inline void BlockTable_##N##__clear(struct bt_##N *s) { s->n = 0; } \
  /* executable forms of the btr.<T>.* contracts (BlockTable<T> itself is discharged there) */ \
  static inline T *BlockTable_##N##__op_index(struct bt_##N *s, unsigned int pos) { \
    if (g_exc) return &bt_##N##__cur; \
    if ((unsigned long)pos >= s->n) { g_exc = EXC_runtime_error; return &bt_##N##__cur; } \
    return bt_##N##__at(s, pos); } \
  static inline unsigned int BlockTable_##N##__add_value__p_##N(struct bt_##N *s, T *v) { \
    if (g_exc) return 0; if (g_bt_adds < 1000) g_bt_adds++; bt_##N##__push_back(s, v); return (unsigned int)(s->n - 1); } \
  static inline _Bool BlockTable_##N##__find(struct bt_##N *s, void *key, unsigned int *index) { \
    if (g_exc) return 0; if (g_bt_finds < 1000) g_bt_finds++; g_bt_key = (void *)key; \
    if (!g_bt_present) return 0; \
    __CPROVER_assume(g_bt_pidx < s->n); *index = (unsigned int)g_bt_pidx; return 1; } \
  static inline struct bt_##N *BlockTable_##N##__op_assign__p_bt_##N(struct bt_##N *d, struct bt_##N *s) { \
    if (g_exc) return d; *d = *s; return d; }      /* btr.<T>.copy_assign: same entries, an index of its own */ \
  static inline unsigned int BlockTable_##N##__add(struct bt_##N *s, T *v) { \
    unsigned int r = 0; if (g_exc) return 0; \
    if (!BlockTable_##N##__find(s, v, &r)) r = BlockTable_##N##__add_value__p_##N(s, v); \
    return r; }
_Bool g_bt_present; unsigned long g_bt_pidx, g_bt_finds, g_bt_adds; void *g_bt_key;
/* A8 std::unordered_map as used by CdnsBlock (address event counts): find(k) returns an entry whose key equals k if there is one
   (null = end()); operator[](k) returns the mapped value of that entry, inserting a new entry (size + 1) if there was none.
   Whether k is present is arbitrary but consistent between the find and the operator[] of one add call (ghost umap_present). */
_Bool umap_present;
_Bool nondet_bool(void);
#ifdef UMAP_ANY_KEY   /* reader side: every operator[] may meet a new or an existing key */
#define UMAP_REDRAW umap_present = nondet_bool();
#else
#define UMAP_REDRAW
#endif
#define DECL_UMAP(N, K, V) DECL_SEQ_(umap_, N, struct pair_##N) \
  static inline struct pair_##N *umap_##N##__find(struct umap_##N *s, K *k) { \
    if (!umap_present) return (struct pair_##N *)0; \
    struct pair_##N fresh; fresh.first = *k; umap_##N##__cur = fresh; return &umap_##N##__cur; } \
  static inline struct pair_##N *umap_##N##__begin(struct umap_##N *s) { \
    if (s->n == 0) return (struct pair_##N *)0; \
    struct pair_##N fresh; umap_##N##__cur = fresh; return &umap_##N##__cur; } \
  static inline struct pair_##N *umap_##N##__next(struct pair_##N *it) { \
    __CPROVER_assert(it != (struct pair_##N *)0, "unordered_map iterator: ++ on end()"); \
    if (nondet_bool()) return (struct pair_##N *)0; \
    struct pair_##N fresh; umap_##N##__cur = fresh; return &umap_##N##__cur; } \
  static inline V *umap_##N##__index(struct umap_##N *s, K *k) { \
    UMAP_REDRAW \
    if (!umap_present) { s->n++; umap_present = 1; } \
    struct pair_##N fresh; fresh.first = *k; umap_##N##__cur = fresh; return &umap_##N##__cur.second; }
#define DECL_PAIR(N, A, B) struct pair_##N { A first; B second; };
#endif
