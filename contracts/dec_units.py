"""Byte layer, decoder side (C05, C07, C03 safety of the decoder): contracts of the real CdnsDecoder functions."""
from driver import Unit

DEC = 'CdnsDecoder::'
P = 'byte_dec.h'
OPQ = {'std::basic_istream': 'struct istream', 'std::istream': 'struct istream', 'std::basic_ios': 'struct istream'}
STUBS = ['istream__eof', 'istream__read', 'istream__gcount']
GH = [('unsigned long', 'P0', 'DEC_POS($this)'), ('unsigned long', 'A0', 'DEC_AVAIL($this)')]

DEC_SETUP = '''
  static unsigned char dbufobj[65535];
  struct istream in;
  struct CdnsDecoder obj;
  unsigned long po, eo;
  __CPROVER_assume(po <= eo && eo <= 65535);
  obj.m_input = &in; obj.m_buffer = dbufobj; obj.m_p = dbufobj + po; obj.m_end = dbufobj + eo;
  g_dbuf = dbufobj;
  __CPROVER_assume(g_delivered < (1UL << 60) && g_delivered >= eo);
  g_win_start = g_delivered - eo;
  __CPROVER_assume(STREAM_OK(&in));
  __CPROVER_assume(in.eofbit || in.failbit || in.badbit || eo == 65535 || (eo == 0 && g_delivered == 0));
  __CPROVER_assume(g_Wh != g_Wd || g_wh == g_wb);
  __CPROVER_assume(DEC_WIN(&obj));
'''

COMMON_REQ = '''
__CPROVER_requires(__CPROVER_w_ok($this, sizeof(*$this)) && __CPROVER_w_ok($this->m_input, sizeof(struct istream)))
__CPROVER_requires(DEC_INV($this) && DEC_WIN($this))
__CPROVER_requires(g_exc == 0)
__CPROVER_requires(g_dbuf == $this->m_buffer)
'''
DEC_ASSIGNS = '''
__CPROVER_assigns($this->m_p, $this->m_end, __CPROVER_object_whole($this->m_buffer), __CPROVER_object_whole($this->m_input), g_delivered, g_win_start, g_exc)
'''
# ---------------------------------------------------------------- read_to_buffer  (C05)
RTB_C = COMMON_REQ + DEC_ASSIGNS + '''
__CPROVER_ensures(g_exc == 0 ==> __CPROVER_pointer_in_range_dfcc($this->m_buffer, $this->m_p, $this->m_buffer + DEC_BUF - 1))
__CPROVER_ensures(g_exc == 0 || g_exc == EXC_CdnsDecoderEnd)
__CPROVER_ensures((@A0 == 0) == (g_exc == EXC_CdnsDecoderEnd))
__CPROVER_ensures(g_exc == 0 ==> (DEC_INV($this) && DEC_WIN($this) && DEC_PO($this) < DEC_EO($this)))
__CPROVER_ensures(g_exc == 0 ==> (DEC_POS($this) == @P0 && DEC_AVAIL($this) == @A0))
'''
UNITS = [Unit('dec.read_to_buffer', (DEC + 'read_to_buffer', None), contract=RTB_C, prelude=P, opaque=OPQ, stubs=STUBS,
              setup=DEC_SETUP, props=['C05', 'C07', 'C03', 'C01'], timeout=900,
              ghost=GH,
              post='  if (g_exc == EXC_CdnsDecoderEnd) { CANARY("end of input reachable"); }',
              note='all window positions 0..65535, all stream states (good / eof+fail / fail only = unopened / bad), all remaining lengths incl. 0')]

TRUSTED_BASE = [
    'A2 std::istream read/gcount/eof per [istream.unformatted] (ghost: remaining, state bits, two watched input bytes)',
    'A12 machine model LP64; clang 14 AST is the semantics of the source',
    'A13(i) per-byte statements with arbitrary watched indices stand for all indices',
    'cdns2c lowering (DESIGN.md section 3); CBMC 6.11 / goto-instrument dfcc; SAT back end cadical',
]
ASSUMPTIONS = ['total input length < 2^60', 'std::string growth is abstracted (length + watched byte)']

RTB = ['dec.read_to_buffer']
# ---------------------------------------------------------------- read_cbor_type / peek_type
HEADV = '''((g_Wh == @P0) ? g_wh : g_wb)'''
RCT_C = COMMON_REQ + DEC_ASSIGNS.replace('g_exc)', 'g_exc, *$1, *$2)') + '''
__CPROVER_requires(__CPROVER_w_ok($1, 1) && __CPROVER_w_ok($2, 1))
__CPROVER_ensures(g_exc == 0 ==> __CPROVER_pointer_in_range_dfcc($this->m_buffer, $this->m_p, $this->m_buffer + DEC_BUF))
__CPROVER_ensures(g_exc == 0 || g_exc == EXC_CdnsDecoderEnd)
__CPROVER_ensures((@A0 == 0) == (g_exc == EXC_CdnsDecoderEnd))
__CPROVER_ensures(g_exc == 0 ==> (DEC_INV($this) && DEC_WIN($this)))
__CPROVER_ensures(g_exc == 0 ==> (DEC_POS($this) == @P0 + 1 && DEC_AVAIL($this) == @A0 - 1))
__CPROVER_ensures((g_exc == 0 && g_Wh == @P0) ==> (*$1 == (unsigned char)(g_wh & 0xE0) && *$2 == (unsigned char)(g_wh & 0x1F)))
__CPROVER_ensures((g_exc == 0 && g_Wd == @P0) ==> (*$1 == (unsigned char)(g_wb & 0xE0) && *$2 == (unsigned char)(g_wb & 0x1F)))
__CPROVER_ensures(g_exc == 0 ==> (*$1 & 0x1F) == 0 && *$2 < 32)
'''
UNITS.append(Unit('dec.read_cbor_type', (DEC + 'read_cbor_type', None), contract=RCT_C, prelude=P, opaque=OPQ, stubs=STUBS,
                  replace=RTB, setup=DEC_SETUP + '  unsigned char a_ct, a_ad;\n', args=['&obj', '&a_ct', '&a_ad'],
                  props=['C05', 'C07', 'C03', 'C01'], timeout=900,
                  ghost=GH,
                  post='  if (g_exc == EXC_CdnsDecoderEnd) { CANARY("end of input reachable"); }'))

PEEK_C = COMMON_REQ + DEC_ASSIGNS + '''
__CPROVER_ensures(g_exc == 0 ==> __CPROVER_pointer_in_range_dfcc($this->m_buffer, $this->m_p, $this->m_buffer + DEC_BUF - 1))
__CPROVER_ensures(g_exc == 0 || g_exc == EXC_CdnsDecoderEnd)
__CPROVER_ensures((@A0 == 0) == (g_exc == EXC_CdnsDecoderEnd))
__CPROVER_ensures(g_exc == 0 ==> (DEC_INV($this) && DEC_WIN($this) && DEC_PO($this) < DEC_EO($this)))
__CPROVER_ensures(g_exc == 0 ==> (DEC_POS($this) == @P0 && DEC_AVAIL($this) == @A0))
__CPROVER_ensures((g_exc == 0 && g_Wh == @P0) ==> $ret == (g_wh == 0xFF ? (unsigned char)0xFF : (unsigned char)(g_wh & 0xE0)))
__CPROVER_ensures((g_exc == 0 && g_Wd == @P0) ==> $ret == (g_wb == 0xFF ? (unsigned char)0xFF : (unsigned char)(g_wb & 0xE0)))
'''
UNITS.append(Unit('dec.peek_type', (DEC + 'peek_type', None), contract=PEEK_C, prelude=P, opaque=OPQ, stubs=STUBS,
                  replace=RTB, setup=DEC_SETUP, props=['C05', 'C07', 'C03', 'C01'], timeout=900,
                  ghost=GH,
                  post='  if (g_exc == EXC_CdnsDecoderEnd) { CANARY("end of input reachable"); }',
                  note='peek reports the stop code 0xFF as BREAK and otherwise the major type; consumes nothing'))

# ---------------------------------------------------------------- read_int (loop contract)
RINT_C = COMMON_REQ + DEC_ASSIGNS + '''
__CPROVER_ensures(g_exc == 0 ==> __CPROVER_pointer_in_range_dfcc($this->m_buffer, $this->m_p, $this->m_buffer + DEC_BUF))
__CPROVER_ensures(g_exc == 0 || g_exc == EXC_CdnsDecoderEnd)
__CPROVER_ensures((@A0 < ARGN($1)) == (g_exc == EXC_CdnsDecoderEnd))
__CPROVER_ensures(g_exc == 0 ==> (DEC_INV($this) && DEC_WIN($this)))
__CPROVER_ensures(g_exc == 0 ==> (DEC_POS($this) == @P0 + ARGN($1) && DEC_AVAIL($this) == @A0 - ARGN($1)))
__CPROVER_ensures((g_exc == 0 && $1 <= 23) ==> $ret == $1)
__CPROVER_ensures((g_exc == 0 && $1 >= 28) ==> $ret == 0)
__CPROVER_ensures((g_exc == 0 && ARGN($1) > 0 && ARGN($1) < 8) ==> ($ret >> (8 * ARGN($1))) == 0)
__CPROVER_ensures((g_exc == 0 && g_Wd >= @P0 && g_Wd - @P0 < ARGN($1)) ==> LANE($ret, ARGN($1) - 1 - (g_Wd - @P0)) == g_wb)
__CPROVER_ensures((g_exc == 0 && g_Wh >= @P0 && g_Wh - @P0 < ARGN($1)) ==> LANE($ret, ARGN($1) - 1 - (g_Wh - @P0)) == g_wh)
'''
RINT_LOOP = '''
  __CPROVER_assigns($L1, $L2, $this->m_p, $this->m_end, __CPROVER_object_whole($this->m_buffer), __CPROVER_object_whole($this->m_input), g_delivered, g_win_start, g_exc, @BINDS)
  __CPROVER_loop_invariant($L2 >= 0 && (unsigned long)$L2 <= ARGN($1) && ARGN($1) > 0 && g_exc == 0)
  __CPROVER_loop_invariant(DEC_INV($this) && DEC_WIN($this) && g_dbuf == $this->m_buffer)
  __CPROVER_loop_invariant(DEC_POS($this) == @P0 + (ARGN($1) - $L2) && @A0 >= ARGN($1) - $L2 && DEC_AVAIL($this) == @A0 - (ARGN($1) - $L2))
  __CPROVER_loop_invariant($L2 == 8 ? $L1 == 0 : ($L1 & ((1UL << (8 * $L2)) - 1)) == 0)
  __CPROVER_loop_invariant(ARGN($1) < 8 ==> ($L1 >> (8 * ARGN($1))) == 0)
  __CPROVER_loop_invariant((g_Wd >= @P0 && g_Wd - @P0 < ARGN($1) - $L2) ==> LANE($L1, ARGN($1) - 1 - (g_Wd - @P0)) == g_wb)
  __CPROVER_loop_invariant((g_Wh >= @P0 && g_Wh - @P0 < ARGN($1) - $L2) ==> LANE($L1, ARGN($1) - 1 - (g_Wh - @P0)) == g_wh)
  __CPROVER_decreases($L2)
'''
UNITS.append(Unit('dec.read_int', (DEC + 'read_int', None), contract=RINT_C, loops={1: RINT_LOOP}, prelude=P, opaque=OPQ, stubs=STUBS,
                  replace=RTB, setup=DEC_SETUP + '  unsigned char a_il;\n', args=['&obj', 'a_il'], ghost=GH,
                  props=['C05', 'C07', 'C03', 'C01'], timeout=2400, split=True, weight=3,
                  post='  if (g_exc == EXC_CdnsDecoderEnd) { CANARY("end of input reachable"); }',
                  note='argument of 0/1/2/4/8 bytes, big endian, stated per byte lane for two arbitrary watched input bytes; any window '
                       'position incl. a refill between any two argument bytes; loop closed by invariant (no unwinding)'))

# ---------------------------------------------------------------- typed head readers
RCT = ['dec.read_cbor_type']
RINT = ['dec.read_int']


def head_reader(bad, n, value_clauses, extra_assigns=''):
    """bad(h): C expr, head byte h is not acceptable -> CdnsDecoderException; n(h): argument bytes consumed"""
    B = bad.replace('$h', 'g_wh')
    N = n.replace('$h', 'g_wh')
    c = COMMON_REQ + DEC_ASSIGNS.replace('g_exc)', 'g_exc' + extra_assigns + ')') + '''
__CPROVER_ensures(g_exc == 0 ==> __CPROVER_pointer_in_range_dfcc($this->m_buffer, $this->m_p, $this->m_buffer + DEC_BUF))
__CPROVER_ensures(EXC3(g_exc))
__CPROVER_ensures(@A0 == 0 ==> g_exc == EXC_CdnsDecoderEnd)
__CPROVER_ensures(g_exc == 0 ==> (DEC_INV($this) && DEC_WIN($this)))
__CPROVER_ensures((g_Wh == @P0 && @A0 >= 1 && (%(B)s)) ==> g_exc == EXC_CdnsDecoderException)
__CPROVER_ensures((g_Wh == @P0 && @A0 >= 1 && !(%(B)s)) ==> ((@A0 - 1 < (%(N)s)) == (g_exc == EXC_CdnsDecoderEnd)))
__CPROVER_ensures((g_Wh == @P0 && @A0 >= 1 && !(%(B)s)) ==> g_exc != EXC_CdnsDecoderException)
__CPROVER_ensures((g_Wh == @P0 && g_exc == 0) ==> (DEC_POS($this) == @P0 + 1 + (%(N)s) && DEC_AVAIL($this) == @A0 - 1 - (%(N)s)))
''' % {'B': B, 'N': N}
    for v in value_clauses:
        c += '__CPROVER_ensures((g_Wh == @P0 && g_exc == 0) ==> (%s))\n' % v.replace('$h', 'g_wh').replace('$N', '(' + N + ')')
    return c


def arg_value(v):
    """clauses: v is the big-endian argument of the head (ai < 24: the ai itself)"""
    return ['AIV($h) < 24 ==> %s == AIV($h)' % v,
            '($N > 0 && $N < 8) ==> (%s >> (8 * $N)) == 0' % v,
            '(g_Wd > @P0 && g_Wd - @P0 - 1 < $N) ==> LANE(%s, $N - 1 - (g_Wd - @P0 - 1)) == g_wb' % v]


HR = dict(prelude=P, opaque=OPQ, stubs=STUBS, ghost=GH, props=['C05', 'C07', 'C03', 'C01'], timeout=1800, weight=2,
          post='  if (g_exc == EXC_CdnsDecoderEnd) { CANARY("end of input reachable"); }\n  if (g_exc == EXC_CdnsDecoderException) { CANARY("format error reachable"); }')

UNITS.append(Unit('dec.read_unsigned', (DEC + 'read_unsigned', None), setup=DEC_SETUP, replace=RCT + RINT,
                  contract=head_reader('MT($h) != 0x00 || AIV($h) >= 28', 'ARGN(AIV($h))', arg_value('$ret')), **HR))
UNITS.append(Unit('dec.read_negative', (DEC + 'read_negative', None), setup=DEC_SETUP, replace=RCT + RINT,
                  contract=head_reader('MT($h) != 0x20 || AIV($h) >= 28', 'ARGN(AIV($h))', arg_value('((unsigned long)(-1L - $ret))')), **HR))
for nm, major in [('read_array_start', '0x80'), ('read_map_start', '0xA0')]:
    UNITS.append(Unit('dec.' + nm, (DEC + nm, None), setup=DEC_SETUP + '  _Bool a_indef;\n', args=['&obj', '&a_indef'], replace=RCT + RINT,
                      contract=head_reader('MT($h) != %s || (AIV($h) >= 28 && AIV($h) <= 30)' % major, 'ARGN(AIV($h))',
                                           ['*$1 == (AIV($h) == 31)', 'AIV($h) == 31 ==> $ret == 0'] + arg_value('$ret'),
                                           extra_assigns=', *$1') + '__CPROVER_requires(__CPROVER_w_ok($1, 1))\n', **HR))
UNITS.append(Unit('dec.read_break', (DEC + 'read_break', None), setup=DEC_SETUP, replace=RCT,
                  contract=head_reader('$h != 0xFF', '0UL', []), **HR))
UNITS.append(Unit('dec.read_bool', (DEC + 'read_bool', None), setup=DEC_SETUP, replace=RCT + RINT,
                  contract=head_reader('!((MT($h) == 0xE0 && (AIV($h) == 20 || AIV($h) == 21)) || (MT($h) == 0x00 && AIV($h) < 28))',
                                       '(MT($h) == 0x00 ? ARGN(AIV($h)) : 0UL)',
                                       ['MT($h) == 0xE0 ==> $ret == (AIV($h) == 21)',
                                        '(MT($h) == 0x00 && AIV($h) < 24) ==> $ret == (AIV($h) != 0)',
                                        '(MT($h) == 0x00 && g_Wd > @P0 && g_Wd - @P0 - 1 < $N && g_wb != 0) ==> $ret']), **HR))
# read_integer: peek + read_unsigned | read_negative, all by contract
UNITS.append(Unit('dec.read_integer', (DEC + 'read_integer', None), setup=DEC_SETUP,
                  replace=['dec.peek_type', 'dec.read_unsigned', 'dec.read_negative'],
                  contract=head_reader('(MT($h) != 0x00 && MT($h) != 0x20) || AIV($h) >= 28', 'ARGN(AIV($h))',
                                       arg_value('(MT($h) == 0x00 ? (unsigned long)$ret : (unsigned long)(-1L - $ret))')), **HR))

# ---------------------------------------------------------------- read_string (three loop contracts)
LOOPASG = '$this->m_p, $this->m_end, __CPROVER_object_whole($this->m_buffer), __CPROVER_object_whole($this->m_input), g_delivered, g_win_start, g_exc, @BINDS'
ACCT = 'DEC_POS($this) >= @P0 && DEC_POS($this) - @P0 <= @A0 && DEC_AVAIL($this) == @A0 - (DEC_POS($this) - @P0)'
BADCHUNK = '(g_wh != 0xFF && (MT(g_wh) != $1 || AIV(g_wh) == 31))'
RSTR_C = COMMON_REQ + DEC_ASSIGNS + '''
__CPROVER_requires(g_reserve_max == DEC_AVAIL($this))
__CPROVER_requires($1 == 0x40 || $1 == 0x60)
__CPROVER_ensures(g_exc == 0 ==> __CPROVER_pointer_in_range_dfcc($this->m_buffer, $this->m_p, $this->m_buffer + DEC_BUF))
__CPROVER_ensures(EXC3(g_exc))
__CPROVER_ensures(g_exc == 0 ==> (DEC_INV($this) && DEC_WIN($this) && ''' + ACCT + '''))
__CPROVER_ensures(!$3 ==> g_exc != EXC_CdnsDecoderException)
__CPROVER_ensures((!$3 && $2 < (1UL << 32)) ==> ((@A0 < $2) == (g_exc == EXC_CdnsDecoderEnd)))
__CPROVER_ensures((!$3 && $2 < (1UL << 32) && g_exc == 0) ==> (DEC_POS($this) == @P0 + $2 && $ret.len == $2))
__CPROVER_ensures((!$3 && $2 < (1UL << 32) && g_exc == 0 && g_Ws < $2 && g_Wd == @P0 + g_Ws) ==> $ret.wch == g_wb)
__CPROVER_ensures(($3 && g_exc == 0) ==> (DEC_POS($this) >= @P0 + 1 && $ret.len <= DEC_POS($this) - @P0 - 1))
__CPROVER_ensures(($3 && g_exc == 0 && g_Wh + 1 == DEC_POS($this)) ==> g_wh == 0xFF)
__CPROVER_ensures(($3 && g_exc == EXC_CdnsDecoderException && g_Wh + 1 == DEC_POS($this)) ==> ''' + BADCHUNK + ''')
__CPROVER_ensures(($3 && @A0 == 0) ==> g_exc == EXC_CdnsDecoderEnd)
'''
RSTR_L1 = '''
  __CPROVER_assigns($L1, $L2, ''' + LOOPASG + ''')
  __CPROVER_loop_invariant(!$3 && (unsigned long)$L2 <= $2 && g_exc == 0 && DEC_INV($this) && DEC_WIN($this) && g_dbuf == $this->m_buffer)
  __CPROVER_loop_invariant(''' + ACCT + ''')
  __CPROVER_loop_invariant($2 < (1UL << 32) ==> (DEC_POS($this) == @P0 + $L2 && $L1.len == $L2))
  __CPROVER_loop_invariant(($2 < (1UL << 32) && g_Ws < $L2 && g_Wd == @P0 + g_Ws) ==> $L1.wch == g_wb)
  __CPROVER_decreases(DEC_AVAIL($this))
'''
RSTR_L2 = '''
  __CPROVER_assigns($L1, ''' + LOOPASG + ''')
  __CPROVER_loop_invariant($3 && g_exc == 0 && DEC_INV($this) && DEC_WIN($this) && g_dbuf == $this->m_buffer)
  __CPROVER_loop_invariant(''' + ACCT + ''' && $L1.len <= DEC_POS($this) - @P0)
  __CPROVER_decreases(DEC_AVAIL($this))
'''
RSTR_L3 = '''
  __CPROVER_assigns($L1, $L6, ''' + LOOPASG + ''')
  __CPROVER_loop_invariant($3 && g_exc == 0 && DEC_INV($this) && DEC_WIN($this) && g_dbuf == $this->m_buffer)
  __CPROVER_loop_invariant(''' + ACCT + ''' && DEC_POS($this) >= @P0 + 1 && $L1.len <= DEC_POS($this) - @P0 - 1)
  __CPROVER_decreases(DEC_AVAIL($this))
'''
CSTR = ['cstring__empty', 'cstring__reserve', 'cstring__push_back', 'cstring__size']
UNITS.append(Unit('dec.read_string', (DEC + 'read_string', None), contract=RSTR_C, loops={1: RSTR_L1, 2: RSTR_L2, 3: RSTR_L3},
                  prelude=P, opaque=OPQ, stubs=STUBS + CSTR,
                  replace=RTB + ['dec.peek_type', 'dec.read_cbor_type', 'dec.read_int', 'dec.read_break'],
                  setup=DEC_SETUP + '  unsigned char a_ct; __CPROVER_assume(a_ct == 0x40 || a_ct == 0x60); unsigned long a_len; _Bool a_indef = A_INDEF;\n  g_reserve_max = DEC_AVAIL(&obj);\n',
                  args=['&obj', 'a_ct', 'a_len', 'a_indef'], ghost=GH, props=['C07', 'C05', 'C03', 'C01'], timeout=3000, split=True, object_bits=10, weight=4,
                  variants=[('definite', ['A_INDEF 0'])],   # the indefinite variant needs > 20 GB per obligation (DESIGN 7b): not run
                  bind='g_reserve_max = DEC_AVAIL($A0);', bind_assigns=['g_reserve_max'],
                  post='  if (g_exc == EXC_CdnsDecoderEnd) { CANARY("end of input reachable"); }',
                  note='definite strings of any length < 2^32 (the code counts bytes in an unsigned int): exact length, position, bytes in order, '
                       'end-of-input iff too few bytes; chunked strings: a normal return ends on the stop code, a format error is raised only '
                       'for a chunk head that is not the stop code and has the wrong major type or is itself indefinite, every loop consumes '
                       'input (decreases), reserve() never sized by an unchecked length field. The full chunk grammar is the bounded unit dec.bmc.'))

# bounded stand-ins for skip_item / chunked strings were tried (reference-parser comparison on <= 4..5 input bytes) and did not
# terminate within 25 minutes because recursion unwinding multiplies the five recursive call sites; see DESIGN.md section 7b.

# The three byte-window units (2-10 minutes each, 3-5 GB per query) are decided by the quick checks of C05 / C07 / C03, which own them; C01 (a chain over 150 units)
# re-runs them only in its thorough tier, so that its quick check stays within the time a per-change check may take.
for _u in UNITS:
    if _u.id in ('dec.read_string', 'dec.read_int', 'dec.read_to_buffer'):
        _u.thorough_only_in = ('C01',)
