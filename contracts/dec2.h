/* Decoder, structure level (C07/C08: skip_item, chunked strings): the head-level readers are replaced by executable forms of their
 * contracts (dec.* units) over an abstract input whose window is ONE byte (so that the direct accesses m_p[0] / m_p++ of the real
 * bodies still work), and the activation-local protocol of the function under contract is observed by ghost counters.
 * Recursive calls of skip_item are replaced by the executable form of skip_item's own contract (induction on the remaining input). */
#include "rt_common.h"
struct istream { char opaque; };
typedef struct { unsigned long len; } cstring;
_Bool nondet_bool(void); unsigned long nondet_ulong(void); unsigned char nondet_uchar(void);

unsigned char g_cell[1];       /* the one-byte window */
/* ghost state in ONE object so that frames stay short (DESIGN T14) */
struct d2_ghost {
  unsigned long avail;         /* input bytes not yet consumed (includes a loaded, unconsumed byte) */
  unsigned long avail0;
  /* activation-local observations */
  unsigned long nheads, rec, rs_calls, payload;
  unsigned char h0;            /* first head byte read by this activation */
  unsigned long arg0; _Bool arg0_set;   /* argument of that head (first read_int) */
  _Bool break_consumed, callee_threw, rec_on_break, peek_break;
  unsigned char rs_type; unsigned long rs_len; _Bool rs_indef;
  unsigned long chunks, chunk_bytes;
} G2;
#define g_avail G2.avail
#define g_avail0 G2.avail0
#define g_nheads G2.nheads
#define g_rec G2.rec
#define g_rs_calls G2.rs_calls
#define g_payload G2.payload
#define g_h0 G2.h0
#define g_arg0 G2.arg0
#define g_arg0_set G2.arg0_set
#define g_break_consumed G2.break_consumed
#define g_callee_threw G2.callee_threw
#define g_rec_on_break G2.rec_on_break
#define g_peek_break G2.peek_break
#define g_rs_type G2.rs_type
#define g_rs_len G2.rs_len
#define g_rs_indef G2.rs_indef
#define g_chunks G2.chunks
#define g_chunk_bytes G2.chunk_bytes

#define D2_LOADED(d) ((d)->m_p == g_cell && (d)->m_end == g_cell + 1)
#define D2_EMPTY(d) ((d)->m_p == (d)->m_end)
#define D2_INV(d) ((d)->m_buffer == g_cell && (D2_LOADED(d) || ((d)->m_p == g_cell + 1 && (d)->m_end == g_cell + 1) || ((d)->m_p == g_cell && (d)->m_end == g_cell)) && \
                   (!D2_LOADED(d) || g_avail >= 1))
#define MT(h) ((unsigned char)((h) & 0xE0))
#define AIV(h) ((unsigned char)((h) & 0x1F))

struct CdnsDecoder;
static inline void d2_throw(int e) { g_exc = e; g_callee_threw = 1; }
/* a byte was consumed by the code under test (m_p++) after the last load: account for it lazily */
#define D2_SYNC(d) if ((d)->m_p == g_cell + 1 && (d)->m_end == g_cell + 1) { if (g_cell[0] == 0xFF && g_peek_break) g_break_consumed = 1; g_peek_break = 0; g_avail--; (d)->m_p = g_cell; (d)->m_end = g_cell; }
/* the stop code last peeked at an item boundary has been consumed (possibly not yet accounted for) */
#define D2_BREAK_CONSUMED(d) (g_break_consumed || ((d)->m_p == g_cell + 1 && (d)->m_end == g_cell + 1 && g_cell[0] == 0xFF && g_peek_break))

/* string being built by read_string: only its length is observed here */
unsigned long g_argsum; unsigned char g_hlast;
static inline cstring cstring__empty(void) { cstring s; s.len = 0; return s; }
static inline unsigned long cstring__size(cstring *s) { return s->len; }
static inline void cstring__reserve(cstring *s, unsigned long n)
{
  if (g_exc) return;
  __CPROVER_assert(n <= s->len + g_avail || n <= s->len + 65535UL, "string.reserve: allocation not sized by an unchecked length field");
}
static inline void cstring__push_back(cstring *s, char c) { if (g_exc) return; __CPROVER_assume(s->len < (1UL << 62)); /* strings shorter than 2^62 */ s->len++; }
static inline void cstring__append(cstring *s, char *p, unsigned long n) { if (g_exc) return; __CPROVER_assert(__CPROVER_r_ok(p, n), "string.append: source range readable"); __CPROVER_assume(s->len < (1UL << 62) && n < (1UL << 62)); s->len += n; }
