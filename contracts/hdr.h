/* CdnsReader::read_file_header (C05, C08): the decoder seen as a sequence of typed reads; every read may raise. */
#include "rt_common.h"
#include "item_types.h"
struct CdnsDecoder { char opaque; };
_Bool nondet_bool(void); unsigned long nondet_ulong(void);
struct hdr_ghost { int step; _Bool seq_bad, raised, outer_indef, blocks_indef; unsigned long outer_len, blocks_len, id, idlen; };
struct hdr_ghost H;   /* step: 0 start, 1 outer array opened, 2 file type id read, 3 preamble read, 4 blocks array opened */
unsigned long __CPROVER_uninterpreted_upper(unsigned long);
#define HTHROW(z) if (g_exc) return z; if (nondet_bool()) { g_exc = nondet_bool() ? EXC_CdnsDecoderException : EXC_CdnsDecoderEnd; H.raised = 1; return z; }
unsigned long CdnsDecoder__read_array_start(struct CdnsDecoder *d, _Bool *indef)
{
  HTHROW(0)
  unsigned long n = nondet_ulong(); _Bool ind = nondet_bool();
  *indef = ind;
  if (H.step == 0) { H.outer_len = n; H.outer_indef = ind; H.step = 1; }
  else if (H.step == 3) { H.blocks_len = ind ? 0 : n; H.blocks_indef = ind; H.step = 4; }
  else H.seq_bad = 1;
  return ind ? 0 : n;
}
cstring CdnsDecoder__read_textstring(struct CdnsDecoder *d)
{
  cstring s; s.len = nondet_ulong(); s.id = nondet_ulong(); cstring z = s; z.len = 0;
  HTHROW(z)
  if (H.step == 1) { H.step = 2; H.id = s.id; H.idlen = s.len; } else H.seq_bad = 1;
  return s;
}
static inline void cstring__toupper(cstring *s) { s->id = __CPROVER_uninterpreted_upper(s->id); }
