"""Block-level writers: CdnsBlock::write_blocktables, CdnsBlock::write (C10, C02, C01)."""
import sys, os
sys.path.insert(0, os.path.join(os.path.dirname(os.path.abspath(__file__)), '..', 'spec'))
from driver import Unit
from ctypes_lower import LowerError
import rfc8618_maps as RFC
from item_units import P, EXT, ENC_STUBS, NESTED, WREQ, elem_clause

TABLES = ['m_ip_address', 'm_classtype', 'm_name_rdata', 'm_qr_sig', 'm_qlist', 'm_qrr', 'm_rrlist', 'm_rr', 'm_malformed_message_data']
TKEY = {'m_' + k: v for k, v in RFC.TABLE_KEYS.items()}
NONEMPTY_TABLES = ' + '.join('(unsigned long)({b}%s.n != 0)' % t for t in TABLES)
QR_ANY = ' || '.join('(p)->%s.has' % r[0] for r in RFC.MAPS['QueryResponse'])
MM_ANY = ' || '.join('(p)->%s.has' % r[0] for r in RFC.MAPS['MalformedMessage'])
PRE_C = '''
#define QR_NONEMPTY(p) (%s)
#define MM_NONEMPTY(p) (%s)
#define SEQ_INV_QueryResponse(p) QR_NONEMPTY(p)
#define SEQ_INV_MalformedMessage(p) MM_NONEMPTY(p)
''' % (QR_ANY, MM_ANY)

BLOCK_SIZES = ' && '.join('{b}%s.n < (1UL << 56)' % t for t in TABLES + ['m_query_responses', 'm_address_event_counts', 'm_malformed_messages'])
CURS = ['bt_StringItem__cur', 'bt_ClassType__cur', 'bt_QueryResponseSignature__cur', 'bt_IndexListItem__cur', 'bt_Question__cur', 'bt_RR__cur',
        'bt_MalformedMessageData__cur', 'seq_QueryResponse__cur', 'umap_AddressEventCount_u64__cur', 'seq_MalformedMessage__cur']
SCRATCH = '__CPROVER_assigns(%s)\n' % ', '.join(CURS)


def loops_for(keyof):
    def gen(ast, L, tf):
        out = {}
        for k, info in tf.loopinfo.items():
            seq = info['seq']
            member = seq.split('->')[-1].split('.')[-1]
            key = keyof[member]
            i = info['counter']
            out[k] = '''
  __CPROVER_assigns(%(i)s, written, g_bytes, kt_left, kt_depth, kt_isval, g_ekind, g_eval, g_eseen, g_exc, %(cur)s)
  __CPROVER_loop_invariant(%(i)s <= %(seq)s.n && g_exc == 0 && written == g_bytes)
  __CPROVER_loop_invariant(%(i)s < %(seq)s.n ? (kt_depth == 2 && kt_left == %(seq)s.n - %(i)s) : (kt_depth == 1 && !kt_isval))
  __CPROVER_loop_invariant((g_K == %(key)d && g_Ei < %(i)s) ==> (g_eseen && g_ekind == K_NESTED))
  __CPROVER_loop_invariant(g_K != %(key)d ==> (g_eseen == __CPROVER_loop_entry(g_eseen) && g_ekind == __CPROVER_loop_entry(g_ekind) && g_eval == __CPROVER_loop_entry(g_eval)))
  __CPROVER_decreases(%(seq)s.n - %(i)s)
''' % {'i': i, 'seq': seq, 'key': key, 'cur': info['m'] + '__cur'}
        return out
    return gen


def table_clauses(b):
    c = ''
    for t in TABLES:
        k = TKEY[t]
        c += '__CPROVER_ensures(g_K == %d ==> g_kcount == (%s%s.n != 0 ? 1UL : 0UL))\n' % (k, b, t)
        c += '__CPROVER_ensures((g_K == %d && %s%s.n != 0) ==> (g_kkind == K_ARRAY && g_kval == %s%s.n))\n' % (k, b, t, b, t)
        c += '__CPROVER_ensures((g_K == %d && g_Ei < %s%s.n) ==> (g_eseen && g_ekind == K_NESTED))\n' % (k, b, t)
    c += '__CPROVER_ensures((%s) ==> g_kcount == 0)\n' % ' && '.join('g_K != %d' % TKEY[t] for t in TABLES)
    return c


WBT_C = WREQ + SCRATCH + '''
__CPROVER_requires(__CPROVER_r_ok($2, sizeof(*$2)) && *$2 != 0)
__CPROVER_requires(''' + BLOCK_SIZES.format(b='$this->') + ''')
__CPROVER_ensures(kt_depth == 1 && kt_topmap && !kt_isval && !g_keybad && !kt_over && kt_topn == *$2)
__CPROVER_ensures(kt_pairs == ''' + NONEMPTY_TABLES.format(b='$this->') + ''')
''' + table_clauses('$this->')

UNITS = [Unit('w.CdnsBlock.write_blocktables', ('CdnsBlock::write_blocktables', None), contract=WBT_C, loops=loops_for(TKEY), prelude=P,
              pre_c=PRE_C, extern_records=EXT, stubs=ENC_STUBS + ['BlockTable_[A-Za-z]+__size'], gen_stubs=NESTED,
              setup='  struct CdnsBlock obj; struct CdnsEncoder enc; unsigned long nf;\n  mon_init();\n  __CPROVER_assume(nf != 0);\n  __CPROVER_assume(' + BLOCK_SIZES.format(b='obj.') + ');\n',
              args=['&obj', '&enc', '&nf'], props=['C10', 'C02', 'C01'], timeout=1800,
              note='emits a map declared with *fields members and exactly one (RFC key, array of all entries) pair per non-empty table: '
                   'well-formed iff the caller passes the number of non-empty tables (checked at the call site in CdnsBlock::write)')]

BKEY = {'m_query_responses': 3, 'm_address_event_counts': 4, 'm_malformed_messages': 5}
WB_C = WREQ + SCRATCH + '''
__CPROVER_requires(''' + BLOCK_SIZES.format(b='$this->') + ''')
__CPROVER_requires($this->m_block_parameters.storage_parameters.ticks_per_second >= 1)
__CPROVER_ensures(KT_MAP_DONE)
__CPROVER_ensures(g_K == 0 ==> (g_kcount == 1 && g_kkind == K_NESTED))
__CPROVER_ensures(g_K == 1 ==> g_kcount == ($this->m_block_statistics.has ? 1UL : 0UL))
__CPROVER_ensures((g_K == 1 && $this->m_block_statistics.has) ==> g_kkind == K_NESTED)
__CPROVER_ensures(g_K == 2 ==> g_kcount == ((''' + NONEMPTY_TABLES.format(b='$this->') + ''') != 0 ? 1UL : 0UL))
__CPROVER_ensures((g_K == 2 && g_kcount == 1) ==> g_kkind == K_NESTED)
''' + ''.join('''__CPROVER_ensures(g_K == %(k)d ==> g_kcount == ($this->%(m)s.n != 0 ? 1UL : 0UL))
__CPROVER_ensures((g_K == %(k)d && $this->%(m)s.n != 0) ==> (g_kkind == K_ARRAY && g_kval == $this->%(m)s.n))
__CPROVER_ensures((g_K == %(k)d && g_Ei < $this->%(m)s.n) ==> (g_eseen && g_ekind == K_NESTED))
''' % {'k': k, 'm': m} for m, k in BKEY.items()) + '''
__CPROVER_ensures((g_K < 0 || g_K > 5) ==> g_kcount == 0)
'''
BLOCK_STUBS = [
    (r'^QueryResponse__write$', '  __CPROVER_assert(QR_NONEMPTY($P0), "QueryResponse::write on a stored record with at least one member");\n  return enc_nested($P1, 0);'),
    (r'^MalformedMessage__write$', '  __CPROVER_assert(MM_NONEMPTY($P0), "MalformedMessage::write on a stored record with at least one member");\n  return enc_nested($P1, 0);'),
    (r'^CdnsBlock__write_blocktables$', '  __CPROVER_assert(*$P2 != 0 && *$P2 == ' + NONEMPTY_TABLES.format(b='$P0->') +
     ', "write_blocktables: declared member count equals the number of non-empty tables");\n  return enc_nested($P1, 0);'),
]
UNITS.append(Unit('w.CdnsBlock.write', ('CdnsBlock::write', None), contract=WB_C, loops=loops_for(BKEY), prelude=P, pre_c=PRE_C,
                  extern_records=EXT, stubs=ENC_STUBS + ['BlockTable_[A-Za-z]+__size'], gen_stubs=BLOCK_STUBS + NESTED,
                  setup='  struct CdnsBlock obj; struct CdnsEncoder enc;\n  mon_init();\n  __CPROVER_assume(' + BLOCK_SIZES.format(b='obj.') +
                        ');\n  __CPROVER_assume(obj.m_block_parameters.storage_parameters.ticks_per_second >= 1);\n'
                        '  __CPROVER_assume(obj.m_query_responses.wi >= obj.m_query_responses.n || QR_NONEMPTY(&obj.m_query_responses.wv));\n'
                        '  __CPROVER_assume(obj.m_malformed_messages.wi >= obj.m_malformed_messages.n || MM_NONEMPTY(&obj.m_malformed_messages.wv));\n',
                  args=['&obj', '&enc'], props=['C10', 'C02', 'C01'], timeout=1800,
                  note='block map: preamble, optional statistics, tables iff any is non-empty, the three item arrays iff non-empty, each with '
                       'all stored items in order; stored QueryResponse/MalformedMessage records are non-empty (element invariant, '
                       'established by the add_* units)'))

# ---------------------------------------------------------------- CdnsBlock::clear (C11: nothing of a cleared block is visible in the next one)
def clear_contract(ast, L, tf):
    # every BlockTable / item container member of CdnsBlock, taken from the AST (a new table without a clear() is a violation, not a gap)
    conts = []
    for f in ast.records['CdnsBlock'].get('inner', []):
        if isinstance(f, dict) and f.get('kind') == 'FieldDecl':
            cls, t = L.types.classify(f['type'].get('desugaredQualType') or f['type']['qualType'])
            if cls in ('bt', 'vec', 'deq', 'umap'):
                conts.append(f['name'])
    if sorted(conts) != sorted(TABLES + ['m_query_responses', 'm_address_event_counts', 'm_malformed_messages']):
        raise LowerError('CdnsBlock containers changed: %s' % conts)
    c = '\n__CPROVER_requires(__CPROVER_w_ok($this, sizeof(*$this)) && g_exc == 0)\n__CPROVER_assigns(__CPROVER_object_whole($this))\n__CPROVER_ensures(g_exc == 0)\n'
    for m in conts:
        c += '__CPROVER_ensures($this->%s.n == 0)\n' % m
    c += '__CPROVER_ensures(!$this->m_block_statistics.has && $this->m_block_preamble.earliest_time.m_secs == 0 && $this->m_block_preamble.earliest_time.m_ticks == 0)\n'
    return c


UNITS.append(Unit('blk.clear', ('CdnsBlock::clear', None), contract=clear_contract, prelude=P, pre_c=PRE_C, extern_records=EXT,
                  stubs=['BlockTable_[A-Za-z]+__clear', 'seq_[A-Za-z0-9_]+__clear', 'umap_[A-Za-z0-9_]+__clear'],
                  setup='  static struct CdnsBlock obj;\n', args=['&obj'], props=['C11', 'C12', 'C02'], timeout=300,
                  auto_inline=[r'[A-Za-z]+__ctor__\w+', r'[A-Za-z]+__default'],
                  note='whatever the block holds (also tables populated while no item is buffered): every table and every item array is empty afterwards, statistics and earliest time reset'))

# ---------------------------------------------------------------- table accessors of CdnsBlock (C03: indices from a file are bounds-checked; C11: wrappers de-duplicate)
def _eq(ast, L, kind, rec, a, b):
    from bt_units import val_eq
    if kind == 'data':
        return '(%s.id == %s.id && %s.len == %s.len)' % (a, b, a, b)
    if kind == 'list':
        return '(%s.n == %s.n && %s.wi == %s.wi && %s.wv == %s.wv)' % (a, b, a, b, a, b)
    return val_eq(ast, L, rec, a, b)


ACCESS = [('ip_address', 'm_ip_address', 'StringItem', 'data'), ('classtype', 'm_classtype', 'ClassType', None), ('name_rdata', 'm_name_rdata', 'StringItem', 'data'),
          ('qr_signature', 'm_qr_sig', 'QueryResponseSignature', None), ('question_list', 'm_qlist', 'IndexListItem', 'list'), ('question', 'm_qrr', 'Question', None),
          ('rr_list', 'm_rrlist', 'IndexListItem', 'list'), ('rr', 'm_rr', 'RR', None), ('malformed_message_data', 'm_malformed_message_data', 'MalformedMessageData', None)]


def get_contract(tab, rec, sub):
    def gen(ast, L, tf):
        stored = '$this->%s.wv%s' % (tab, '.' + sub if sub else '')
        return '''
__CPROVER_requires(__CPROVER_r_ok($this, sizeof(*$this)) && g_exc == 0)
__CPROVER_assigns(bt_%(r)s__cur, g_exc)
__CPROVER_ensures(g_exc == 0 || g_exc == EXC_runtime_error)
__CPROVER_ensures((g_exc == 0) == ((unsigned long)$1 < $this->%(t)s.n))
__CPROVER_ensures((g_exc == 0 && (unsigned long)$1 == $this->%(t)s.wi) ==> %(eq)s)
''' % {'r': rec, 't': tab, 'eq': _eq(ast, L, sub, rec, '$ret', stored)}
    return gen


def addw_contract(tab, rec, sub):
    def gen(ast, L, tf):
        stored = '$this->%s.wv%s' % (tab, '.' + sub if sub else '')
        return '''
__CPROVER_requires(__CPROVER_w_ok($this, sizeof(*$this)) && __CPROVER_r_ok($1, sizeof(*$1)) && g_exc == 0)
__CPROVER_requires($this->%(t)s.n < (1UL << 31) && g_bt_finds == 0 && g_bt_adds == 0)
__CPROVER_assigns($this->%(t)s, bt_%(r)s__cur, g_bt_finds, g_bt_adds, g_bt_key)
__CPROVER_ensures(g_exc == 0 && (unsigned long)$ret < $this->%(t)s.n && g_bt_finds == 1 && g_bt_key == (void *)$1)
__CPROVER_ensures(g_bt_present ==> ($ret == (unsigned int)g_bt_pidx && $this->%(t)s.n == @N0 && g_bt_adds == 0))
__CPROVER_ensures(!g_bt_present ==> ($ret == (unsigned int)@N0 && $this->%(t)s.n == @N0 + 1 && g_bt_adds == 1))
__CPROVER_ensures((!g_bt_present && $this->%(t)s.wi == @N0) ==> %(eq)s)
''' % {'r': rec, 't': tab, 'eq': _eq(ast, L, sub, rec, stored, '(*$1)')}
    return gen


ACC_STUBS = ['BlockTable_[A-Za-z]+__(size|op_index|find|add|add_value__p_[A-Za-z]+)', 'seq_[A-Za-z0-9_]+__(assign|size)', 'cstring__[a-z]+']
ACC_AUTO = [r'[A-Za-z]+__ctor__\w+', r'[A-Za-z]+__default']
for nm, tab, rec, sub in ACCESS:
    argt = {'data': 'cstring', 'list': 'struct seq_u32'}.get(sub, 'struct ' + rec)
    UNITS.append(Unit('blk.get_' + nm, ('CdnsBlock::get_' + nm, None), contract=get_contract(tab, rec, sub), prelude=P, pre_c=PRE_C, extern_records=EXT, stubs=ACC_STUBS,
                      auto_inline=ACC_AUTO, setup='  static struct CdnsBlock obj; unsigned int a_i;\n', args=['&obj', 'a_i'], props=['C03', 'C01'], timeout=300,
                      post='  if (g_exc != 0) { CANARY("out-of-range index reachable"); }',
                      note='any index (e.g. one read from a file): the entry is returned iff the index is below the table size, otherwise std::runtime_error; the returned value is the stored one'))
    UNITS.append(Unit('blk.add_' + nm, ('CdnsBlock::add_' + nm, None), contract=addw_contract(tab, rec, sub), prelude=P, pre_c=PRE_C, extern_records=EXT, stubs=ACC_STUBS,
                      auto_inline=ACC_AUTO, ghost=[('unsigned long', 'N0', '$this->%s.n' % tab)],
                      setup='  static struct CdnsBlock obj; static %s a_v;\n  __CPROVER_assume(obj.%s.n < (1UL << 31));\n  g_bt_finds = 0; g_bt_adds = 0;\n' % (argt, tab), args=['&obj', '&a_v'],
                      props=['C11', 'C01'], timeout=300, post='  if (g_bt_present) { CANARY("equal entry present reachable"); }',
                      note='the table is searched once for the given value; present => its index and no growth; absent => appended at index old size with exactly the given value'))

# ---------------------------------------------------------------- C19: copies of a block (CdnsBlock::operator=, CdnsBlockRead::operator=)
def copy_contract(read):
    def gen(ast, L, tf):
        b = '$this->base.' if read else '$this->'
        r = '$1->base.' if read else '$1->'
        c = '''
__CPROVER_requires(__CPROVER_w_ok($this, sizeof(*$this)) && __CPROVER_r_ok($1, sizeof(*$1)) && g_exc == 0)
__CPROVER_assigns(__CPROVER_object_whole($this), umap_AddressEventCount_u64__cur)
__CPROVER_ensures(g_exc == 0 && $ret == $this)
'''
        for t, rec in [(a[1], a[2]) for a in ACCESS]:
            c += '__CPROVER_ensures(%(b)s%(t)s.n == %(r)s%(t)s.n && %(b)s%(t)s.wi == %(r)s%(t)s.wi && ($this == $1 || %(eq)s))\n' % {
                'b': b, 'r': r, 't': t, 'eq': _eq(ast, L, None, rec, b + t + '.wv', r + t + '.wv')}
        for t in ('m_query_responses', 'm_address_event_counts', 'm_malformed_messages'):
            c += '__CPROVER_ensures(%(b)s%(t)s.n == %(r)s%(t)s.n && %(b)s%(t)s.wi == %(r)s%(t)s.wi)\n' % {'b': b, 'r': r, 't': t}
        c += ('__CPROVER_ensures(%(b)sm_block_preamble.earliest_time.m_secs == %(r)sm_block_preamble.earliest_time.m_secs && %(b)sm_block_preamble.earliest_time.m_ticks == %(r)sm_block_preamble.earliest_time.m_ticks)\n'
              '__CPROVER_ensures((%(b)sm_block_statistics.has != 0) == (%(r)sm_block_statistics.has != 0))\n'
              '__CPROVER_ensures(%(b)sm_block_parameters.storage_parameters.ticks_per_second == %(r)sm_block_parameters.storage_parameters.ticks_per_second)\n'
              '__CPROVER_ensures(%(b)sm_query_responses.wv.time_offset.has == %(r)sm_query_responses.wv.time_offset.has && %(b)sm_query_responses.wv.client_port.val == %(r)sm_query_responses.wv.client_port.val)\n') % {'b': b, 'r': r}
        if read:
            c += ('__CPROVER_ensures($this == $1 || ($this->m_qr_read == 0 && $this->m_mm_read == 0 && ($this->m_aec_read == 0 || $this->m_aec_read == &umap_AddressEventCount_u64__cur)))\n'
                  '__CPROVER_ensures($this == $1 || (($this->m_aec_read == 0) == ($this->base.m_address_event_counts.n == 0)))\n')
        return c
    return gen


for uid, mn, rd in (('blk.copy_assign', '_ZN4CDNS9CdnsBlockaSERS0_', False), ('blk.read_copy_assign', '_ZN4CDNS13CdnsBlockReadaSERS0_', True)):
    rec = 'CdnsBlockRead' if rd else 'CdnsBlock'
    UNITS.append(Unit(uid, ('@' + mn, None), contract=copy_contract(rd), prelude=P, pre_c=PRE_C, extern_records=EXT,
                      stubs=['BlockTable_[A-Za-z]+__op_assign__p_bt_[A-Za-z]+', 'seq_[A-Za-z0-9_]+__assign', 'umap_[A-Za-z0-9_]+__(assign|begin)'],
                      replace=(['blk.copy_assign'] if rd else []), auto_inline=ACC_AUTO,
                      setup='  static struct %s obj, src;\n' % rec, args=['&obj', '&src'], props=['C19'], timeout=600,
                      note='copy assignment of a block: every table and item array of the copy has the entries of the source (each table through BlockTable\'s copy assignment, '
                           'btr.<T>.copy_assign), preamble, statistics and parameters are copied, the source is not written (frame)'
                           + ('; the copy\'s read positions restart on the copy\'s own containers' if rd else '')))

def ctor_contract(read):
    def gen(ast, L, tf):
        c = copy_contract(read)(ast, L, tf)
        # a constructor is lowered as a function returning the object: $1 is the source (first parameter), the new object is $ret
        c = c.replace('__CPROVER_requires(__CPROVER_w_ok($this, sizeof(*$this)) && __CPROVER_r_ok($1, sizeof(*$1)) && g_exc == 0)', '__CPROVER_requires(__CPROVER_r_ok($1, sizeof(*$1)) && g_exc == 0)')
        c = c.replace('__CPROVER_assigns(__CPROVER_object_whole($this), umap_AddressEventCount_u64__cur)', '__CPROVER_assigns(umap_AddressEventCount_u64__cur)')
        c = c.replace('__CPROVER_ensures(g_exc == 0 && $ret == $this)', '__CPROVER_ensures(g_exc == 0)')
        c = c.replace('$this == $1 || ', '').replace('$this->', '$ret.')
        return c
    return gen


for uid, mn, rd, mv in (('blk.copy_ctor', '_ZN4CDNS9CdnsBlockC1ERS0_', False, False), ('blk.read_copy_ctor', '_ZN4CDNS13CdnsBlockReadC1ERS0_', True, False),
                        ('blk.move_ctor', '_ZN4CDNS9CdnsBlockC1EOS0_', False, True), ('blk.read_move_ctor', '_ZN4CDNS13CdnsBlockReadC1EOS0_', True, True)):
    rec = 'CdnsBlockRead' if rd else 'CdnsBlock'
    UNITS.append(Unit(uid, ('@' + mn, None), contract=ctor_contract(rd), prelude=P, pre_c=PRE_C, extern_records=EXT,
                      stubs=['BlockTable_[A-Za-z]+__op_assign__p_bt_[A-Za-z]+', 'seq_[A-Za-z0-9_]+__assign', 'umap_[A-Za-z0-9_]+__(assign|begin)'],
                      replace=['blk.read_copy_assign' if rd else 'blk.copy_assign'], auto_inline=ACC_AUTO,
                      extra_c='struct seq_u8 g_OpCodesDefault; struct seq_u16 g_RrTypesDefault;\n',
                      setup='  static struct %s src;\n' % rec, args=['&src'], props=['C19'], timeout=600,
                      note='%s constructor of a block: the new block has the content of the source (through the copy assignment above)%s' % ('"move"' if mv else 'copy', '; read positions start on its own containers' if rd else '')))

from item_units import TRUSTED_BASE as _TB, ASSUMPTIONS as _AS
TRUSTED_BASE = _TB + ['A7 BlockTable<T> as seen by CdnsBlock: a sequence in index order with size(); std::unordered_map iteration visits every entry once']
ASSUMPTIONS = _AS + ['table and array sizes < 2^56', 'ticks_per_second >= 1']

# ---------------------------------------------------------------- counters and the size test of CdnsBlock, and the counters the exporter reports (C12)
_QN, _AN, _MN = '$this->m_query_responses.n', '$this->m_address_event_counts.n', '$this->m_malformed_messages.n'
_MAX = '(unsigned long)$this->m_block_parameters.storage_parameters.max_block_items'
_CNT_REQ = '\n__CPROVER_requires(__CPROVER_r_ok($this, sizeof(*$this)) && g_exc == 0 && %s < (1UL << 60) && %s < (1UL << 60) && %s < (1UL << 60))\n__CPROVER_assigns()\n' % (_QN, _AN, _MN)
_SZ_STUBS = ['seq_[A-Za-z0-9_]+__size', 'umap_[A-Za-z0-9_]+__size', 'BlockTable_[A-Za-z]+__size']
_CNT_SETUP = '  static struct CdnsBlock obj;\n  __CPROVER_assume(obj.m_query_responses.n < (1UL << 60) && obj.m_address_event_counts.n < (1UL << 60) && obj.m_malformed_messages.n < (1UL << 60));\n'
for _fn, _ens, _note in (
        ('get_item_count', '$ret == %s + %s + %s' % (_QN, _AN, _MN), 'the item count is the sum of the three item arrays'),
        ('get_qr_count', '$ret == ' + _QN, 'number of buffered query/response records'),
        ('get_aec_count', '$ret == ' + _AN, 'number of distinct buffered address-event keys'),
        ('get_mm_count', '$ret == ' + _MN, 'number of buffered malformed messages'),
        ('full', '($ret != 0) == (%s >= %s || %s >= %s || %s >= %s)' % (_QN, _MAX, _AN, _MAX, _MN, _MAX),
         'full() is true exactly when one of the three item arrays has reached the maximum of the parameters in force (a maximum of 0: always)')):
    UNITS.append(Unit('blk.' + _fn, ('CdnsBlock::' + _fn, None), contract=_CNT_REQ + '__CPROVER_ensures(g_exc == 0 && (%s))\n' % _ens, prelude=P, pre_c=PRE_C,
                      extern_records=EXT, stubs=_SZ_STUBS, setup=_CNT_SETUP, args=['&obj'], props=['C12'], timeout=300, note=_note))
SBP_C = '''
__CPROVER_requires(__CPROVER_w_ok($this, sizeof(*$this)) && __CPROVER_r_ok($1, sizeof(*$1)) && g_exc == 0 && ''' + ' && '.join('%s < (1UL << 60)' % x for x in (_QN, _AN, _MN)) + ''')
__CPROVER_assigns($this->m_block_parameters, $this->m_block_preamble.block_parameters_index)
__CPROVER_ensures(g_exc == 0 && ($ret != 0) == (''' + '%s + %s + %s == 0' % (_QN, _AN, _MN) + '''))
__CPROVER_ensures($ret != 0 ==> ($this->m_block_preamble.block_parameters_index.has && $this->m_block_preamble.block_parameters_index.val == $2))
__CPROVER_ensures($ret != 0 ==> (''' + ' && '.join('$this->m_block_parameters.storage_parameters.%s == $1->storage_parameters.%s' % (f, f) for f in (
    'ticks_per_second', 'max_block_items', 'storage_hints.query_response_hints', 'storage_hints.query_response_signature_hints', 'storage_hints.rr_hints',
    'storage_hints.other_data_hints')) + '''))
__CPROVER_ensures($ret == 0 ==> ($this->m_block_parameters.storage_parameters.max_block_items == @M0 && $this->m_block_preamble.block_parameters_index.has == @H0))
'''
UNITS.append(Unit('blk.set_block_parameters', ('CdnsBlock::set_block_parameters', None), contract=SBP_C, prelude=P, pre_c=PRE_C, extern_records=EXT,
                  stubs=_SZ_STUBS + ['seq_[A-Za-z0-9_]+__assign'], inline=[('CdnsBlock::get_item_count', None)],
                  auto_inline=[r'[A-Za-z]+__op_assign\w*'],
                  ghost=[('unsigned long', 'M0', '$this->m_block_parameters.storage_parameters.max_block_items'), ('_Bool', 'H0', '$this->m_block_preamble.block_parameters_index.has')],
                  setup=_CNT_SETUP + '  static struct BlockParameters bp; unsigned int a_i;\n', args=['&obj', '&bp', 'a_i'], props=['C12', 'C04'], timeout=300,
                  note='the parameters of a block change only while it holds no item: then the block takes the given size limit, tick rate and hints and records the given index; '
                       'otherwise nothing changes and false is returned'))
