/* Common runtime for lowered c-dns units (ghost exception flag, generic library type macros).
 * Everything here is part of the trusted base (DESIGN.md section 4). */
#ifndef RT_COMMON_H
#define RT_COMMON_H
typedef unsigned long size_t;
void *malloc(size_t);

enum { EXC_none = 0, EXC_CdnsDecoderException = 1, EXC_CdnsDecoderEnd = 2, EXC_CdnsEncoderException = 3,
       EXC_CborOutputException = 4, EXC_runtime_error = 5, EXC_bad_alloc = 6, EXC_any = 99 };
int g_exc;

/* catch (T&) matches T and classes derived from T; every c-dns exception derives from std::runtime_error */
static inline _Bool exc_matches(int e, int kind) {
  if (e == 0) return 0;
  if (kind == EXC_any || kind == EXC_runtime_error) return e != EXC_bad_alloc || kind == EXC_any;
  return e == kind;
}

/* string concatenation / literals inside a concatenation: opaque unless a prelude observes them */
#define CSTRING_CONCAT(a, b) cstring__opaque()
#define CSTRING_LIT(t, h) cstring__opaque()
#define SAME(p, q) __CPROVER_same_object((p), (q))
#define OFF(p) __CPROVER_POINTER_OFFSET(p)

#ifdef CANARY_ON
#define CANARY(msg) __CPROVER_assert(0, "CANARY " msg)
#else
#define CANARY(msg)
#endif
#endif
