/* Byte layer, decoder side: ghost model of std::istream (A2) with two watched input bytes. */
#include "rt_common.h"

struct istream { _Bool eofbit, failbit, badbit; unsigned long remaining; long gcnt; };

unsigned char *g_dbuf;        /* the decoder's window object (set by the harness) */
unsigned long g_delivered;    /* bytes delivered by the stream so far */
unsigned long g_win_start;    /* logical input index of m_buffer[0] */
unsigned long g_Wh; unsigned char g_wh;   /* watched input index #1 (used for "the head byte") and its value */
unsigned long g_Wd; unsigned char g_wb;   /* watched input index #2 (used for "an argument/payload byte") */

#define DEC_BUF 65535UL
#define DEC_PO(d) ((unsigned long)OFF((d)->m_p))
#define DEC_EO(d) ((unsigned long)OFF((d)->m_end))
#define STREAM_OK(in) ((!((in)->eofbit || (in)->failbit || (in)->badbit) || (in)->remaining == 0) && (in)->remaining < (1UL << 60))
#define DEC_INV(d) (SAME((d)->m_p, (d)->m_buffer) && SAME((d)->m_end, (d)->m_buffer) && OFF((d)->m_buffer) == 0 && \
                    __CPROVER_OBJECT_SIZE((d)->m_buffer) == DEC_BUF && DEC_PO(d) <= DEC_EO(d) && DEC_EO(d) <= DEC_BUF && \
                    g_win_start <= g_delivered && g_delivered - g_win_start == DEC_EO(d) && g_delivered < (1UL << 61) && g_delivered + (d)->m_input->remaining < (1UL << 61) && STREAM_OK((d)->m_input) && \
                    /* reachable states only: a good stream has so far delivered only full windows */ \
                    ((d)->m_input->eofbit || (d)->m_input->failbit || (d)->m_input->badbit || DEC_EO(d) == DEC_BUF || (DEC_EO(d) == 0 && g_delivered == 0)))
#define DEC_POS(d) (g_win_start + DEC_PO(d))
#define DEC_AVAIL(d) ((DEC_EO(d) - DEC_PO(d)) + (d)->m_input->remaining)
#define WATCH1(d, W, v) (!((W) >= g_win_start && (W) - g_win_start < DEC_EO(d)) || (d)->m_buffer[(W) - g_win_start] == (v))
#define DEC_WIN(d) (WATCH1(d, g_Wh, g_wh) && WATCH1(d, g_Wd, g_wb))

/* RFC 8949: number of argument bytes following a head with additional information ai (24..27) */
#define ARGN(ai) ((ai) < 24 ? 0UL : (ai) == 24 ? 1UL : (ai) == 25 ? 2UL : (ai) == 26 ? 4UL : (ai) == 27 ? 8UL : 0UL)
#define LANE(v, k) ((unsigned char)((v) >> (8 * (k))))

_Bool istream__eof(struct istream *in) { return in->eofbit; }
_Bool istream__bad(struct istream *in) { return in->badbit; }
long istream__gcount(struct istream *in) { return in->gcnt; }

/* [istream.unformatted]: read(buf,n) on a good stream delivers min(n, remaining) bytes and sets eofbit|failbit iff
   fewer than n; on a stream that is not good it delivers nothing and sets failbit. */
struct istream *istream__read(struct istream *in, char *buf, long n)
{
  if (g_exc) return in;
  __CPROVER_assert(n >= 0 && __CPROVER_w_ok(buf, n), "istream.read: destination writable");
  __CPROVER_assert(SAME(buf, g_dbuf) && OFF(buf) == 0, "istream.read: destination is the decoder window");
  g_win_start = g_delivered;
  if (!(in->eofbit || in->failbit || in->badbit)) {
    unsigned long k = (unsigned long)n <= in->remaining ? (unsigned long)n : in->remaining;
    __CPROVER_havoc_object(g_dbuf);
    if (g_Wh >= g_win_start && g_Wh - g_win_start < k) g_dbuf[g_Wh - g_win_start] = g_wh;
    if (g_Wd >= g_win_start && g_Wd - g_win_start < k) g_dbuf[g_Wd - g_win_start] = g_wb;
    in->remaining -= k;
    g_delivered += k;
    in->gcnt = (long)k;
    if (k < (unsigned long)n) { in->eofbit = 1; in->failbit = 1; }
  } else {
    in->gcnt = 0;
    in->failbit = 1;
  }
  return in;
}

#define MT(h) ((unsigned char)((h) & 0xE0))
#define AIV(h) ((unsigned char)((h) & 0x1F))
#define EXC3(e) ((e) == 0 || (e) == EXC_CdnsDecoderEnd || (e) == EXC_CdnsDecoderException)

/* A5 std::string as built by the decoder: length + one watched character (index g_Ws, arbitrary) */
typedef struct { unsigned long len; unsigned char wch; } cstring;
unsigned long g_Ws;
unsigned long g_reserve_max;   /* ghost: largest reserve() argument that is justified (input still available, or a constant) */
static inline cstring cstring__empty(void) { cstring s; s.len = 0; s.wch = 0; return s; }
static inline unsigned long cstring__size(cstring *s) { return s->len; }
static inline void cstring__reserve(cstring *s, unsigned long n)
{
  if (g_exc) return;
  __CPROVER_assert(n <= s->len + g_reserve_max || n <= s->len + DEC_BUF, "string.reserve: allocation not sized by an unchecked length field (<= bytes already read + input still available, or + 64 KiB)");
}
static inline void cstring__push_back(cstring *s, char c)
{
  if (g_exc) return;
  if (s->len == g_Ws) s->wch = (unsigned char)c;
  s->len++;
}
static inline void cstring__append(cstring *s, char *p, unsigned long n)
{
  if (g_exc) return;
  __CPROVER_assert(__CPROVER_r_ok(p, n), "string.append: source range readable");
  if (g_Ws >= s->len && g_Ws - s->len < n) s->wch = (unsigned char)p[g_Ws - s->len];
  s->len += n;
}
