/* Output pipeline (C14, C15, C16): ghost models of zlib (A10), std::ofstream / rename / ::write (A11) and the inner writer. */
#include "rt_common.h"
typedef struct { unsigned long len; unsigned long id; } cstring;
static inline cstring cstring__opaque(void) { cstring s; return s; }
static inline char *cstring__data(cstring *s) { return (char *)s->id; }
static inline char *cstring__data_v(cstring s) { return (char *)s.id; }
/* path names: a + b is an uninterpreted function of the operands' identities; the last concatenation is remembered (A11) */
unsigned long __CPROVER_uninterpreted_concat(unsigned long, unsigned long);
struct cc_ghost { unsigned long a, b, r; };
struct cc_ghost g_cc;
static inline cstring cstring__concat(cstring a, cstring b) { cstring r; r.len = a.len + b.len; r.id = __CPROVER_uninterpreted_concat(a.id, b.id); g_cc.a = a.id; g_cc.b = b.id; g_cc.r = r.id; return r; }
static inline cstring cstring__lit_v(unsigned long h) { cstring s; s.len = h >> 32; s.id = h; return s; }
#undef CSTRING_CONCAT
#undef CSTRING_LIT
#define CSTRING_CONCAT(a, b) cstring__concat(a, b)
#define CSTRING_LIT(t, h) cstring__lit_v(h)
_Bool nondet_bool(void); unsigned long nondet_ulong(void); int nondet_int(void);

/* ---- automatic storage: CBMC has no stack model; a VLA larger than 1 MiB per call is reported (C14 chunks of tens of MiB) */
#define VLA_CHECK(bytes) __CPROVER_assert((bytes) <= (1UL << 20), "automatic storage (variable-length array) per call is at most 1 MiB")

/* ---- zlib deflate per its manual: consumes a prefix of the input, produces a prefix of the output space, updates the four fields */
struct z_stream_s { unsigned char *next_in; unsigned int avail_in; unsigned long total_in; unsigned char *next_out; unsigned int avail_out; unsigned long total_out;
                    char *msg; void *state; void *zalloc; void *zfree; void *opaque; int data_type; unsigned long adler; unsigned long reserved; };
unsigned long g_z_in, g_z_out;     /* bytes consumed from / produced for the current stream */
unsigned long g_fwd;               /* bytes forwarded to the inner writer */
_Bool g_z_open, g_z_finished, g_fwd_bad, g_z_err;
unsigned char *g_scratch; unsigned long g_scratch_len, g_scratch_used;
int lib_deflate(struct z_stream_s *s, int flush)
{
  if (g_exc) return 0;
  __CPROVER_assert(g_z_open, "deflate on an initialised stream");
  unsigned int ci = nondet_int(), co = nondet_int();
  __CPROVER_assume(ci <= s->avail_in && co <= s->avail_out);
  if (nondet_bool()) { g_z_err = 1; return -2; }      /* Z_STREAM_ERROR / Z_BUF_ERROR ... */
  /* progress (assumed): with input pending and >= 128 bytes of output space something is consumed or produced */
  __CPROVER_assume(!(s->avail_in > 0 && s->avail_out >= 128) || ci > 0);
  g_scratch = s->next_out; g_scratch_len = s->avail_out; g_scratch_used = co;
  s->next_in += ci; s->avail_in -= ci; s->next_out += co; s->avail_out -= co;
  g_z_in += ci; g_z_out += co;
  if (flush == 4 && s->avail_in == 0 && nondet_bool()) { g_z_finished = 1; return 1; }   /* Z_STREAM_END only with Z_FINISH */
  return 0;
}
int lib_deflateEnd(struct z_stream_s *s) { if (g_exc) return 0; __CPROVER_assert(g_z_open, "deflateEnd on an open stream"); g_z_open = 0; s->state = 0; return 0; }
int lib_deflateInit2_(struct z_stream_s *s, int a, int b, int c, int d, int e, const char *v, int sz)
{ if (g_exc) return 0;
  /* zlib manual: windowBits 16 + (9..15) selects the gzip wrapper (C14: the output is a gzip stream); Z_DEFLATED; memLevel 1..9; level -1..9; strategy 0..4 */
  __CPROVER_assert(c >= 16 + 9 && c <= 16 + 15, "deflateInit2 asks for the gzip format (windowBits 16 + 9..15)");
  __CPROVER_assert(b == 8 && d >= 1 && d <= 9 && a >= -1 && a <= 9 && e >= 0 && e <= 4, "deflateInit2 arguments in the ranges of the zlib manual");
  if (nondet_bool()) return -4; g_z_open = 1; g_z_finished = 0; g_z_in = 0; g_z_out = 0; g_fwd = 0; s->state = (void *)1; return 0; }

/* ---- the inner writer (virtual BaseCborOutputWriter): accepts p[0..n) in order; may fail (C16) */
struct BaseCborOutputWriter;
_Bool g_inner_fail_ok;
_Bool g_lost;      /* some byte handed to the inner writer / OS was not accepted (C16) */
void BaseCborOutputWriter__write(struct BaseCborOutputWriter *w, char *p, unsigned long n)
{
  if (g_exc) return;
  __CPROVER_assert(__CPROVER_r_ok(p, n), "inner write: source range readable");
  /* what is forwarded must be exactly the bytes the compressor just produced, from the start of the scratch buffer */
  if ((unsigned char *)p != g_scratch || n != g_scratch_used) g_fwd_bad = 1;
  g_fwd += n;
  if (g_inner_fail_ok && nondet_bool()) { g_exc = EXC_CborOutputException; g_lost = 1; }
}

/* inner writer rotation (virtual): allowed only when the compressed stream is finished and everything produced was forwarded */
struct any { int which; cstring s; int fd; };
_Bool g_rot_bad; unsigned long g_rotations;
void BaseCborOutputWriter__rotate_output(struct BaseCborOutputWriter *w, struct any *v)
{
  if (g_exc) return;
  if (g_z_open || g_fwd != g_z_out) g_rot_bad = 1;     /* the old output would miss its trailer or data */
  g_rotations++;
}
/* ---- POSIX write/close/fstat and std::ofstream/rename (A11): nondeterministic failures, ghost event order */
unsigned long g_os_accepted, g_w_size; char *g_w_base; _Bool g_w_bad, g_w_err; int g_errno;
long lib_write(int fd, void *p, unsigned long n)
{
  if (g_exc) return 0;
  __CPROVER_assert(__CPROVER_r_ok(p, n), "::write source readable");
  long r = nondet_int();
  __CPROVER_assume(r >= -1 && (r < 0 || (unsigned long)r <= n));
  if (r != (long)n) g_lost = 1;
  /* bytes the OS has accepted of the caller's chunk so far; a (re)try must offer exactly the part not yet accepted */
  if ((char *)p != g_w_base + g_os_accepted || n != g_w_size - g_os_accepted) g_w_bad = 1;
  if (r > 0) g_os_accepted += (unsigned long)r;
  if (r < 0) { g_errno = nondet_int(); g_w_err = 1; }
  return r;
}
int *lib___errno_location(void) { return &g_errno; }
unsigned long g_closes; int g_closed_fd;
int lib_close(int fd) { if (g_exc) return 0; if (g_closes < 1000) g_closes++; g_closed_fd = fd; return 0; }
struct stat_s { int x; };
int lib_fstat(int fd, struct stat_s *b) { return nondet_bool() ? -1 : 0; }
struct ofstream { _Bool open_, failed; };
struct type_info { int id; };
_Bool g_f_open, g_f_flushed, g_f_renamed, g_f_order_bad; unsigned long g_f_writes_after_rename, g_f_nrename;
/* names: the path a file was opened under = <base> + <suffix> (the last concatenation); it may only be renamed to <base> */
unsigned long g_f_path, g_f_base, g_f_suffix; _Bool g_f_name_bad;
/* std::ios_base::openmode constants (libstdc++ values) and open(path, mode): an ofstream adds 'out'; the file is truncated unless app or in is given ([filebuf.members]) */
#define g_app 1
#define g_ate 2
#define g_binary 4
#define g_in 8
#define g_out 16
#define g_trunc 32
void ofstream__open1(struct ofstream *f, cstring path);
static inline void ofstream__open2(struct ofstream *f, cstring path, int mode) {
  __CPROVER_assert((mode & (g_app | g_in)) == 0 || (mode & g_trunc) != 0, "the .part file is created empty: opened for truncation (no app / in without trunc), so bytes left by a dead process are not kept");
  ofstream__open1(f, path); }
#define OFS_OPEN_SEL(_1, _2, _3, N, ...) N
#define ofstream__open(...) OFS_OPEN_SEL(__VA_ARGS__, ofstream__open2, ofstream__open1, 0)(__VA_ARGS__)
void ofstream__open1(struct ofstream *f, cstring path) { if (g_exc) return; if (path.id != g_cc.r) g_f_name_bad = 1; g_f_path = path.id; g_f_base = g_cc.a; g_f_suffix = g_cc.b;
  if (nondet_bool()) { f->failed = 1; f->open_ = 0; return; } f->open_ = 1; f->failed = 0; g_f_open = 1; g_f_flushed = 0; g_f_renamed = 0; }
_Bool ofstream__fail(struct ofstream *f) { return f->failed; }
_Bool ofstream__is_open(struct ofstream *f) { return f->open_; }
unsigned long g_f_wbytes; char *g_f_wsrc;
struct ofstream *ofstream__write(struct ofstream *f, char *p, long n) { if (g_exc) return f; if (!f->open_ || g_f_renamed) g_f_order_bad = 1; __CPROVER_assert(n >= 0 && __CPROVER_r_ok(p, (unsigned long)n), "ofstream::write source range readable"); g_f_wbytes += (unsigned long)n; g_f_wsrc = p; if (nondet_bool()) { f->failed = 1; g_lost = 1; } g_f_flushed = 0; return f; }
struct ofstream *ofstream__flush(struct ofstream *f) { if (g_exc) return f; if (f->open_) g_f_flushed = 1; return f; }
void ofstream__close(struct ofstream *f) { if (g_exc) return; f->open_ = 0; g_f_open = 0; }
int lib_rename(char *a, char *b) { if (g_exc) return 0; if (g_f_open || !g_f_flushed || g_f_renamed) g_f_order_bad = 1;
  if ((unsigned long)a != g_f_path || (unsigned long)b != g_f_base) g_f_name_bad = 1;   /* the file written is renamed, to its own name without the suffix */ g_f_renamed = 1; if (g_f_nrename < 1000) g_f_nrename++; return nondet_bool() ? -1 : 0; }
struct type_info *any__type(struct any *v) { static struct type_info t; t.id = v->which; return &t; }
struct type_info *typeid__str(void) { static struct type_info t; t.id = 1; return &t; }
struct type_info *typeid__i32(void) { static struct type_info t; t.id = 2; return &t; }
_Bool type_info__ne(struct type_info *a, struct type_info *b) { return a->id != b->id; }
cstring any_cast__str(struct any *v) { return v->s; }
int any_cast__i32(struct any *v) { return v->fd; }

/* ---- liblzma lzma_code per its API documentation: same shape as deflate (A10) */
struct lzma_stream_s { unsigned char *next_in; unsigned long avail_in; unsigned long total_in; unsigned char *next_out; unsigned long avail_out; unsigned long total_out;
                       void *allocator; void *internal; void *r1, *r2, *r3, *r4; unsigned long r5, r6, r7, r8; int r9, r10; };
int lib_lzma_code(struct lzma_stream_s *s, int action)
{
  if (g_exc) return 0;
  __CPROVER_assert(g_z_open, "lzma_code on an initialised stream");
  unsigned long ci = nondet_ulong(), co = nondet_ulong();
  __CPROVER_assume(ci <= s->avail_in && co <= s->avail_out);
  if (nondet_bool()) { g_z_err = 1; return 5; }        /* LZMA_MEM_ERROR ... */
  __CPROVER_assume(!(s->avail_in > 0 && s->avail_out >= 128) || ci > 0);
  g_scratch = s->next_out; g_scratch_len = s->avail_out; g_scratch_used = co;
  s->next_in += ci; s->avail_in -= ci; s->next_out += co; s->avail_out -= co;
  g_z_in += ci; g_z_out += co;
  if (action == 3 && s->avail_in == 0 && nondet_bool()) { g_z_finished = 1; return 1; }
  return 0;
}
int lib_lzma_easy_encoder(struct lzma_stream_s *s, unsigned int preset, int check)
{ if (g_exc) return 0;
  /* liblzma: preset level 0..9 (| LZMA_PRESET_EXTREME), integrity check one of NONE/CRC32/CRC64/SHA256: an .xz stream every xz decoder accepts */
  __CPROVER_assert((preset & 0x1fU) <= 9 && (preset & ~(0x1fU | 0x80000000U)) == 0, "lzma_easy_encoder preset is a valid level");
  __CPROVER_assert(check == 0 || check == 1 || check == 4 || check == 10, "lzma_easy_encoder integrity check is one defined by the .xz format");
  if (nondet_bool()) return 5; g_z_open = 1; g_z_finished = 0; g_z_in = 0; g_z_out = 0; g_fwd = 0; s->internal = (void *)1; return 0; }
void lib_lzma_end(struct lzma_stream_s *s) { if (g_exc) return; __CPROVER_assert(g_z_open, "lzma_end on an open stream"); g_z_open = 0; s->internal = 0; }

/* ---- std::make_unique<Writer<T>>(value, suffix) in the constructors of the compressing writers: the inner writer's creation is observed (name, suffix characters);
   opening the inner output may fail */
unsigned long g_mk_count, g_mk_name; int g_mk_fd; char g_mk_e[4];
#define uptr_assign(p, v) (*(p) = (v))
void *make_unique__Writer_str(cstring value, char *ext)
{ if (g_exc) return (void *)0; if (g_mk_count < 1000) g_mk_count++; g_mk_name = value.id; g_mk_e[0] = ext[0]; g_mk_e[1] = ext[1]; g_mk_e[2] = ext[2]; g_mk_e[3] = ext[3];
  if (nondet_bool()) g_exc = EXC_CborOutputException; return (void *)1; }
void *make_unique__Writer_i32(int value, char *ext)
{ if (g_exc) return (void *)0; if (g_mk_count < 1000) g_mk_count++; g_mk_fd = value; g_mk_e[0] = ext[0]; g_mk_e[1] = ext[1]; g_mk_e[2] = ext[2]; g_mk_e[3] = ext[3];
  if (nondet_bool()) g_exc = EXC_CborOutputException; return (void *)1; }
