"""Decoder, structure level: skip_item and the chunked branch of read_string against the contracts of the head-level readers (C07, C08, C03)."""
from driver import Unit

P = 'dec2.h'
OPQ = {'std::basic_istream': 'struct istream', 'std::istream': 'struct istream', 'std::basic_ios': 'struct istream'}
# executable contracts of the callees (each is the contract discharged in dec.*), over the one-byte window
STUBS_C = '''
void CdnsDecoder__read_to_buffer(struct CdnsDecoder *d)
{
  if (g_exc) return;
  D2_SYNC(d)
  if (d->m_p == d->m_end) {
    if (g_avail == 0) { d2_throw(EXC_CdnsDecoderEnd); return; }
    g_cell[0] = nondet_uchar(); d->m_p = g_cell; d->m_end = g_cell + 1;
  }
}
unsigned char CdnsDecoder__peek_type(struct CdnsDecoder *d)
{
  CdnsDecoder__read_to_buffer(d);
  if (g_exc) return 0;
  g_peek_break = (g_cell[0] == 0xFF);
  return g_cell[0] == 0xFF ? (unsigned char)0xFF : MT(g_cell[0]);
}
void CdnsDecoder__read_cbor_type(struct CdnsDecoder *d, unsigned char *t, unsigned char *a)
{
  CdnsDecoder__read_to_buffer(d);
  if (g_exc) return;
  *t = MT(g_cell[0]); *a = AIV(g_cell[0]);
  if (g_nheads == 0) g_h0 = g_cell[0];
  g_nheads++;
  g_peek_break = 0;
  d->m_p++;
}
unsigned long CdnsDecoder__read_int(struct CdnsDecoder *d, unsigned char il)
{
  if (g_exc) return 0;
  D2_SYNC(d)
  unsigned long n = il < 24 ? 0UL : il == 24 ? 1UL : il == 25 ? 2UL : il == 26 ? 4UL : il == 27 ? 8UL : 0UL;
  unsigned long v = il < 24 ? il : 0;
  if (n > 0) {
    /* the window is empty here (the head was consumed): n argument bytes are consumed, or the input ends */
    if (g_avail < n) { g_avail = 0; d2_throw(EXC_CdnsDecoderEnd); return 0; }
    g_avail -= n;
    v = nondet_ulong();
    if (n < 8) __CPROVER_assume((v >> (8 * n)) == 0);
  }
  if (!g_arg0_set) { g_arg0 = v; g_arg0_set = 1; }
  return v;
}
void CdnsDecoder__read_break(struct CdnsDecoder *d)
{
  CdnsDecoder__read_to_buffer(d);
  if (g_exc) return;
  if (g_cell[0] != 0xFF) { d->m_p++; d2_throw(EXC_CdnsDecoderException); return; }
  d->m_p++;
  g_break_consumed = 1;
}
'''
RS_STUB = '''
cstring CdnsDecoder__read_string(struct CdnsDecoder *d, unsigned char type, unsigned long len, _Bool indef)
{
  cstring s; s.len = 0;
  if (g_exc) return s;
  D2_SYNC(d)
  g_rs_calls++; g_rs_type = type; g_rs_len = len; g_rs_indef = indef;
  if (!indef) {
    if (g_avail < len) { g_avail = 0; d2_throw(EXC_CdnsDecoderEnd); return s; }
    g_avail -= len; s.len = len;
  } else {
    unsigned long k = nondet_ulong();
    __CPROVER_assume(k >= 1 && k <= g_avail);
    if (g_avail == 0 || nondet_bool()) { d2_throw(nondet_bool() ? EXC_CdnsDecoderEnd : EXC_CdnsDecoderException); return s; }
    g_avail -= k;
  }
  return s;
}
'''
REC_STUB = '''
/* skip_item's own contract in executable form (used for the recursive calls): requires that an item starts here, i.e. the next byte
   is not the stop code; consumes at least one byte, or raises */
void skip_item__contract(struct CdnsDecoder *d)
{
  if (g_exc) return;
  CdnsDecoder__read_to_buffer(d);
  if (g_exc) return;
  /* a stop code seen by the preceding peek at an item boundary ends the enclosing container: no item starts there */
  if (g_cell[0] == 0xFF && g_peek_break) g_rec_on_break = 1;
  __CPROVER_assert(!(g_cell[0] == 0xFF && g_peek_break), "skip_item is not called on the stop code that ends the enclosing indefinite-length container");
  g_peek_break = 0;
  g_rec++;
  d->m_p++;
  D2_SYNC(d)
  { unsigned long k = nondet_ulong(); __CPROVER_assume(k <= g_avail); g_avail -= k; }
  if (nondet_bool()) d2_throw(nondet_bool() ? EXC_CdnsDecoderEnd : EXC_CdnsDecoderException);
}
'''
SETUP = '''
  static struct istream in; static struct CdnsDecoder obj;
  obj.m_input = &in; obj.m_buffer = g_cell;
  _Bool loaded = nondet_bool();
  if (loaded) { obj.m_p = g_cell; obj.m_end = g_cell + 1; __CPROVER_assume(g_avail >= 1); } else { obj.m_p = g_cell; obj.m_end = g_cell; }
  __CPROVER_assume(g_avail < (1UL << 60));
  g_avail0 = g_avail;
  g_nheads = 0; g_rec = 0; g_rs_calls = 0; g_arg0_set = 0; g_break_consumed = 0; g_callee_threw = 0; g_rec_on_break = 0; g_peek_break = 0; g_chunks = 0;
'''
G2 = 'G2, g_exc, __CPROVER_object_whole(g_cell)'
H = 'g_h0'
SKIP_C = '''
__CPROVER_requires(__CPROVER_w_ok($this, sizeof(*$this)) && g_exc == 0 && D2_INV($this))
__CPROVER_requires(g_nheads == 0 && g_rec == 0 && g_rs_calls == 0 && !g_arg0_set && !g_break_consumed && !g_callee_threw && !g_rec_on_break && !g_peek_break)
__CPROVER_requires(!D2_LOADED($this) || g_cell[0] != 0xFF)
__CPROVER_assigns($this->m_p, $this->m_end, ''' + G2 + ''')
__CPROVER_ensures(g_exc == 0 || g_exc == EXC_CdnsDecoderException || g_exc == EXC_CdnsDecoderEnd)
__CPROVER_ensures(g_exc == 0 ==> (D2_INV($this) && g_nheads >= 1))
__CPROVER_ensures((g_exc == 0 && (MT(''' + H + ''') == 0x00 || MT(''' + H + ''') == 0x20)) ==> (AIV(''' + H + ''') < 28 && g_rec == 0 && g_rs_calls == 0 && g_nheads == 1))
__CPROVER_ensures((g_exc == 0 && MT(''' + H + ''') == 0xC0) ==> (AIV(''' + H + ''') < 28 && g_rec == 1 && g_rs_calls == 0))
__CPROVER_ensures((g_exc == 0 && MT(''' + H + ''') == 0xE0) ==> (!(AIV(''' + H + ''') >= 28 && AIV(''' + H + ''') <= 30) && g_rec == 0 && g_rs_calls == 0 && g_nheads == 1))
__CPROVER_ensures((g_exc == 0 && (MT(''' + H + ''') == 0x40 || MT(''' + H + ''') == 0x60)) ==> (g_rs_calls == 1 && g_rec == 0 && g_rs_type == MT(''' + H + ''') && g_rs_indef == (AIV(''' + H + ''') == 31) && (AIV(''' + H + ''') == 31 || g_rs_len == g_arg0)))
__CPROVER_ensures((g_exc == 0 && MT(''' + H + ''') == 0x80 && AIV(''' + H + ''') != 31 && g_arg0 < (1UL << 32)) ==> (g_rec == g_arg0 && !D2_BREAK_CONSUMED($this)))
__CPROVER_ensures((g_exc == 0 && MT(''' + H + ''') == 0xA0 && AIV(''' + H + ''') != 31 && g_arg0 < (1UL << 31)) ==> (g_rec == 2 * g_arg0 && !D2_BREAK_CONSUMED($this)))
__CPROVER_ensures((g_exc == 0 && (MT(''' + H + ''') == 0x80 || MT(''' + H + ''') == 0xA0) && AIV(''' + H + ''') == 31) ==> (D2_BREAK_CONSUMED($this) && (MT(''' + H + ''') == 0x80 || (g_rec & 1) == 0)))
__CPROVER_ensures(!g_rec_on_break)
__CPROVER_ensures((g_exc == EXC_CdnsDecoderException && !g_callee_threw) ==> (g_nheads == 1 && (AIV(''' + H + ''') >= 28 && AIV(''' + H + ''') <= 30 || ((MT(''' + H + ''') == 0x00 || MT(''' + H + ''') == 0x20 || MT(''' + H + ''') == 0xC0) && AIV(''' + H + ''') == 31))))
'''
# loop 1: indefinite container; loop 2: definite container.  locals: $L1 cbor_type, $L2 item_length, $L3 item_count, $L4 i
SKIP_L1 = '''
  __CPROVER_assigns($this->m_p, $this->m_end, ''' + G2 + ''')
  __CPROVER_loop_invariant(g_exc == 0 && D2_INV($this) && !g_break_consumed && !g_rec_on_break && !g_callee_threw && !g_peek_break && g_nheads == 1 && g_rs_calls == 0)
  __CPROVER_loop_invariant(g_h0 == (unsigned char)($L1 | $L2) && $L2 == 31 && ($L1 == 0x80 || $L1 == 0xA0) && ($L1 == 0x80 || (g_rec & 1) == 0))
'''
SKIP_L2 = '''
  __CPROVER_assigns($L4, $this->m_p, $this->m_end, ''' + G2 + ''')
  __CPROVER_loop_invariant(g_exc == 0 && D2_INV($this) && !g_break_consumed && !g_rec_on_break && !g_callee_threw && !g_peek_break && g_nheads == 1 && g_rs_calls == 0 && g_arg0_set && g_arg0 == $L3)
  __CPROVER_loop_invariant(g_h0 == (unsigned char)($L1 | $L2) && $L2 != 31 && ($L1 == 0x80 || $L1 == 0xA0))
  __CPROVER_loop_invariant($L3 < (1UL << 32) ==> ((unsigned long)$L4 <= $L3 && g_rec == ($L1 == 0xA0 ? 2UL * $L4 : (unsigned long)$L4)))
'''
UNITS = [Unit('dec2.skip_item', ('CdnsDecoder::skip_item', None), contract=SKIP_C, loops={1: SKIP_L1, 2: SKIP_L2}, prelude=P, opaque=OPQ,
              extra_c=STUBS_C + RS_STUB + REC_STUB, rename_calls={'CdnsDecoder__skip_item': 'skip_item__contract'},
              stubs=['CdnsDecoder__read_to_buffer', 'CdnsDecoder__peek_type', 'CdnsDecoder__read_cbor_type', 'CdnsDecoder__read_int', 'CdnsDecoder__read_break',
                     'CdnsDecoder__read_string', 'skip_item__contract'],
              setup=SETUP + '  __CPROVER_assume(!loaded || g_cell[0] != 0xFF);\n', args=['&obj'], props=['C07', 'C08', 'C03'], timeout=900, arrays_uf=False,
              post='  if (g_exc != 0) { CANARY("exception reachable"); }',
              note='one activation of skip_item against the contracts of the head readers and against its own contract for the nested items: '
                   'integers/simple values: the head only; tags: exactly one nested item; strings: one string body of the head\'s type and length; '
                   'definite containers: exactly n (2n) nested items; indefinite containers: nested items until a stop code at an item boundary, which is '
                   'consumed (maps: an even number of items); a nested skip is never started on a stop code. Induction on the remaining input '
                   '(recursive calls use the same contract). Definite containers with >= 2^32 members are outside the contract (unsigned counter).')]
TRUSTED_BASE = ['contracts of read_to_buffer/peek_type/read_cbor_type/read_int/read_break/read_string (dec.* units) in executable form over a one-byte window',
                'induction on the remaining input for the recursive calls (same contract, strictly less input)', 'cdns2c lowering; CBMC 6.11 dfcc; cadical']
ASSUMPTIONS = ['input length < 2^60', 'definite containers with < 2^32 members']

# ---------------------------------------------------------------- read_string, chunked (indefinite-length) branch
STUBS_RS = STUBS_C.replace("  if (!g_arg0_set) { g_arg0 = v; g_arg0_set = 1; }\n  return v;", "  if (!g_arg0_set) { g_arg0 = v; g_arg0_set = 1; }\n  __CPROVER_assume(v < (1UL << 32) && g_argsum < (1UL << 61));   /* chunks < 2^32 bytes (the copy loop counts in 32 bits), total string length < 2^62 */\n  g_argsum += v;\n  return v;") \
                  .replace("  if (g_nheads == 0) g_h0 = g_cell[0];", "  if (g_nheads == 0) g_h0 = g_cell[0];\n  g_hlast = g_cell[0];")
RSI_C = '''
__CPROVER_requires(__CPROVER_w_ok($this, sizeof(*$this)) && g_exc == 0 && D2_INV($this) && $3)
__CPROVER_requires(($1 == 0x40 || $1 == 0x60) && g_argsum == 0 && g_nheads == 0 && !g_break_consumed && !g_callee_threw && !g_peek_break)
__CPROVER_assigns($this->m_p, $this->m_end, G2, g_argsum, g_hlast, g_exc, __CPROVER_object_whole(g_cell))
__CPROVER_ensures(g_exc == 0 || g_exc == EXC_CdnsDecoderException || g_exc == EXC_CdnsDecoderEnd)
__CPROVER_ensures(g_exc == 0 ==> (D2_INV($this) && g_break_consumed))
__CPROVER_ensures(g_exc == 0 ==> $ret.len == g_argsum)
__CPROVER_ensures((g_exc == EXC_CdnsDecoderException && !g_callee_threw) ==> (g_hlast != 0xFF && (MT(g_hlast) != $1 || AIV(g_hlast) == 31)))
'''
# locals: $L1 ret, $L2 i (definite loop), $L3 chunk_type, $L4 chunk_length_value, $L5 chunk_length, $L6 i
RSI_L1 = '''
  __CPROVER_assigns($L1, $L2, $this->m_p, $this->m_end, G2, g_argsum, g_hlast, g_exc, __CPROVER_object_whole(g_cell))
  __CPROVER_loop_invariant(!$3)
'''
RSI_L2 = '''
  __CPROVER_assigns($L1, $L3, $L4, $this->m_p, $this->m_end, G2, g_argsum, g_hlast, g_exc, __CPROVER_object_whole(g_cell))
  __CPROVER_loop_invariant($3 && g_exc == 0)
  __CPROVER_loop_invariant($this->m_buffer == g_cell)
  __CPROVER_loop_invariant(D2_LOADED($this) || ($this->m_p == g_cell + 1 && $this->m_end == g_cell + 1) || ($this->m_p == g_cell && $this->m_end == g_cell))
  __CPROVER_loop_invariant(!D2_LOADED($this) || g_avail >= 1)
  __CPROVER_loop_invariant(!g_break_consumed && !g_callee_threw && !g_peek_break)
  __CPROVER_loop_invariant($L1.len <= (1UL << 62) && $L1.len == g_argsum)
'''
RSI_L3 = '''
  __CPROVER_assigns($L1, $L6, $this->m_p, $this->m_end, G2, g_hlast, g_exc, __CPROVER_object_whole(g_cell))
  __CPROVER_loop_invariant($3 && g_exc == 0)
  __CPROVER_loop_invariant($this->m_buffer == g_cell)
  __CPROVER_loop_invariant(D2_LOADED($this) || ($this->m_p == g_cell + 1 && $this->m_end == g_cell + 1) || ($this->m_p == g_cell && $this->m_end == g_cell))
  __CPROVER_loop_invariant(!D2_LOADED($this) || g_avail >= 1)
  __CPROVER_loop_invariant(!g_break_consumed && !g_callee_threw && !g_peek_break)
  __CPROVER_loop_invariant($L1.len <= (1UL << 62) && (unsigned long)$L6 <= $L5 && $L1.len + ($L5 - (unsigned long)$L6) == g_argsum)
'''
UNITS.append(Unit('dec2.read_string.chunked', ('CdnsDecoder::read_string', None), contract=RSI_C, loops={'1': RSI_L1, '2': RSI_L2, '2.1': RSI_L3}, prelude=P, opaque=OPQ,
                  extra_c=STUBS_RS, arrays_uf=False,
                  stubs=['CdnsDecoder__read_to_buffer', 'CdnsDecoder__peek_type', 'CdnsDecoder__read_cbor_type', 'CdnsDecoder__read_int', 'CdnsDecoder__read_break', 'cstring__\\w+'],
                  setup=SETUP + '  unsigned char a_ct; __CPROVER_assume(a_ct == 0x40 || a_ct == 0x60); unsigned long a_len; _Bool a_indef = 1;\n  g_argsum = 0;\n',
                  args=['&obj', 'a_ct', 'a_len', 'a_indef'], props=['C07', 'C08', 'C03'], timeout=900,
                  post='  if (g_exc != 0) { CANARY("exception reachable"); }',
                  note='chunked strings: chunks are read until a stop code at a chunk boundary, which is consumed (and a normal return is reachable); a format '
                       'error is raised only for a chunk head that is not the stop code and has another major type or is itself indefinite; chunks < 2^32 bytes, total < 2^62'))

# ---------------------------------------------------------------- read_bytestring / read_textstring (head check, then one read_string)
def rbt_contract(major):
    m = '0x%02X' % major
    return '''
__CPROVER_requires(__CPROVER_w_ok($this, sizeof(*$this)) && g_exc == 0 && D2_INV($this))
__CPROVER_requires(g_nheads == 0 && g_rec == 0 && g_rs_calls == 0 && !g_arg0_set && !g_break_consumed && !g_callee_threw && !g_rec_on_break && !g_peek_break)
__CPROVER_assigns($this->m_p, $this->m_end, ''' + G2 + ''')
__CPROVER_ensures(g_exc == 0 || g_exc == EXC_CdnsDecoderException || g_exc == EXC_CdnsDecoderEnd)
__CPROVER_ensures(g_exc == 0 ==> (g_nheads == 1 && MT(g_h0) == %(m)s && !(AIV(g_h0) >= 28 && AIV(g_h0) <= 30)))
__CPROVER_ensures(g_exc == 0 ==> (g_rs_calls == 1 && g_rs_type == %(m)s && (g_rs_indef != 0) == (AIV(g_h0) == 31) && (AIV(g_h0) == 31 || g_rs_len == g_arg0)))
__CPROVER_ensures((g_exc == EXC_CdnsDecoderException && !g_callee_threw) ==> (g_nheads == 1 && g_rs_calls == 0 && (MT(g_h0) != %(m)s || (AIV(g_h0) >= 28 && AIV(g_h0) <= 30))))
__CPROVER_ensures((g_nheads == 1 && MT(g_h0) == %(m)s && !(AIV(g_h0) >= 28 && AIV(g_h0) <= 30) && !g_callee_threw) ==> g_exc == 0)
''' % {'m': m}


for nm, major in (('read_bytestring', 0x40), ('read_textstring', 0x60)):
    UNITS.append(Unit('dec2.' + nm, ('CdnsDecoder::' + nm, None), contract=rbt_contract(major), prelude=P, opaque=OPQ, extra_c=STUBS_C + RS_STUB, arrays_uf=False,
                      stubs=['CdnsDecoder__read_to_buffer', 'CdnsDecoder__peek_type', 'CdnsDecoder__read_cbor_type', 'CdnsDecoder__read_int', 'CdnsDecoder__read_break',
                             'CdnsDecoder__read_string', 'cstring__\\w+'],
                      setup=SETUP, args=['&obj'], props=['C07', 'C08', 'C03'], timeout=600, post='  if (g_exc != 0) { CANARY("exception reachable"); }',
                      note='one head is read; a string of the other major type or with a reserved length code is a format error and nothing else is; otherwise exactly one '
                           'read_string with the head\'s type, its argument as the length and "indefinite" iff the length code is 31 (definite and chunked forms alike)'))
