/* Item layer, reader side: the decoder seen through the contracts of the byte layer, as a ghost token stream.
 * The stream is a map (or array) with an arbitrary number of entries, arbitrary keys (also unknown, negative, repeated), both
 * container forms; a protocol automaton checks that the reader consumes exactly one value per key and the whole container.
 * One arbitrary watched key g_K (count of occurrences, last value delivered under it) and one watched array element g_Ei. */
#include "rt_common.h"
#include "item_types.h"

struct CdnsDecoder { char opaque; };
enum { K_NONE = 0, K_UINT = 1, K_NINT = 2, K_BOOL = 3, K_TSTR = 4, K_BSTR = 5, K_ARRAY = 6, K_MAP = 7, K_NESTED = 8, K_SKIPPED = 9, K_INT = 10 };

int rd_depth;               /* 0 before the top container, 1 inside it, 2 inside a member array */
_Bool rd_topmap, rd_indef1, rd_indef2, rd_expect_val, rd_done1, rd_bad, rd_break_pending;
unsigned long rd_left1, rd_left2, rd_idx2, rd_cnt1;
long g_K; unsigned long g_kseen; unsigned long g_klast; int g_kkind; long rd_curkey;
unsigned long g_Ei; unsigned long g_elast; _Bool g_eseen; unsigned long g_alen; _Bool g_aseen;

_Bool nondet_bool(void); unsigned long nondet_ulong(void); long nondet_long(void); unsigned char nondet_uchar(void);

#define RD_FRESH (rd_depth == 0 && !rd_bad && !rd_break_pending && g_kseen == 0 && !g_eseen && !g_aseen && rd_cnt1 == 0 && !rd_done1 && !rd_expect_val)
#define RD_MAP_DONE (rd_depth == 1 && rd_topmap && !rd_expect_val && !rd_bad && !rd_break_pending && (rd_indef1 ? rd_done1 : rd_left1 == 0))
#define RD_ARRAY_DONE (rd_depth == 1 && !rd_topmap && !rd_bad && !rd_break_pending && (rd_indef1 ? rd_done1 : rd_left1 == 0))
#define RD_IN_MAP (rd_depth == 1 && rd_topmap && !rd_expect_val && !rd_bad && !rd_done1 && !rd_break_pending)

static inline void rd_init(void)
{
  rd_depth = 0; rd_topmap = 0; rd_indef1 = 0; rd_indef2 = 0; rd_expect_val = 0; rd_done1 = 0; rd_bad = 0; rd_break_pending = 0;
  rd_left1 = 0; rd_left2 = 0; rd_idx2 = 0; rd_cnt1 = 0; g_kseen = 0; g_klast = 0; g_kkind = K_NONE; rd_curkey = 0;
  g_elast = 0; g_eseen = 0; g_alen = 0; g_aseen = 0;
}
/* the byte layer raises CdnsDecoderException / CdnsDecoderEnd on malformed or truncated input: any call may do so */
_Bool g_raised;   /* some decoder call has raised */
#define MAYTHROW(z) if (g_exc) return z; if (nondet_bool()) { g_exc = nondet_bool() ? EXC_CdnsDecoderException : EXC_CdnsDecoderEnd; g_raised = 1; return z; }

static inline void rd_value_done(void)   /* one complete value of the top-level map / element of the top-level array */
{
  rd_expect_val = 0; rd_cnt1++;
  if (!rd_indef1) { if (rd_left1 == 0) rd_bad = 1; else rd_left1--; }
}
static inline void rd_value(int kind, unsigned long v)
{
  if (rd_break_pending) { rd_bad = 1; return; }
  if (rd_depth == 1) {
    if (rd_topmap) {
      if (!rd_expect_val) { rd_bad = 1; return; }
      if (rd_curkey == g_K) { g_klast = v; g_kkind = kind; }
      rd_value_done();
    } else {
      __CPROVER_assume(rd_cnt1 < (1UL << 60));   /* the input has fewer than 2^60 array elements */
      if (rd_cnt1 == g_Ei) { g_elast = v; g_eseen = 1; }
      rd_value_done();
    }
  } else if (rd_depth == 2) {
    __CPROVER_assume(rd_idx2 < (1UL << 60));   /* the input has fewer than 2^60 array elements */
    if (rd_curkey == g_K && rd_idx2 == g_Ei) { g_elast = v; g_eseen = 1; }
    rd_idx2++;
    if (!rd_indef2) {
      if (rd_left2 == 0) rd_bad = 1; else rd_left2--;
      if (rd_left2 == 0) { rd_depth = 1; if (rd_curkey == g_K) { g_alen = rd_idx2; g_aseen = 1; } rd_value_done(); }
    }
  } else rd_bad = 1;
}
unsigned long CdnsDecoder__read_map_start(struct CdnsDecoder *d, _Bool *indef)
{
  MAYTHROW(0)
  if (rd_depth != 0) { rd_bad = 1; return 0; }
  unsigned long n = nondet_ulong(); __CPROVER_assume(n < (1UL << 60));
  _Bool ind = nondet_bool();
  rd_depth = 1; rd_topmap = 1; rd_indef1 = ind; rd_left1 = ind ? 0 : n; *indef = ind;
  return ind ? 0 : n;
}
unsigned long CdnsDecoder__read_array_start(struct CdnsDecoder *d, _Bool *indef)
{
  MAYTHROW(0)
  unsigned long n = nondet_ulong(); __CPROVER_assume(n < (1UL << 60));
  _Bool ind = nondet_bool();
  *indef = ind;
  if (rd_depth == 0) { rd_depth = 1; rd_topmap = 0; rd_indef1 = ind; rd_left1 = ind ? 0 : n; return ind ? 0 : n; }
  if (rd_depth == 1 && rd_topmap && rd_expect_val && !rd_break_pending) {
    if (rd_curkey == g_K) { g_klast = n; g_kkind = K_ARRAY; }
    rd_idx2 = 0; rd_indef2 = ind; rd_left2 = ind ? 0 : n;
    if (!ind && n == 0) { if (rd_curkey == g_K) { g_alen = 0; g_aseen = 1; } rd_value_done(); }
    else rd_depth = 2;
    return ind ? 0 : n;
  }
  rd_bad = 1; return 0;
}
unsigned char CdnsDecoder__peek_type(struct CdnsDecoder *d)
{
  MAYTHROW(0)
  _Bool at_end_possible = (rd_depth == 1 && rd_indef1 && !rd_expect_val && !rd_done1) || (rd_depth == 2 && rd_indef2);
  if (rd_break_pending) return 0xFF;
  if (at_end_possible && nondet_bool()) { rd_break_pending = 1; return 0xFF; }
  unsigned char t = nondet_uchar();
  return (unsigned char)(t & 0xE0);
}
void CdnsDecoder__read_break(struct CdnsDecoder *d)
{
  MAYTHROW()
  if (!rd_break_pending) {
    /* not known to be at a stop code: the byte layer raises a format error unless the next byte happens to be one */
    _Bool ok = ((rd_depth == 1 && rd_indef1 && !rd_expect_val && !rd_done1) || (rd_depth == 2 && rd_indef2)) && nondet_bool();
    if (!ok) { g_exc = EXC_CdnsDecoderException; g_raised = 1; return; }
  }
  rd_break_pending = 0;
  if (rd_depth == 2) { rd_depth = 1; if (rd_curkey == g_K) { g_alen = rd_idx2; g_aseen = 1; } rd_value_done(); }
  else if (rd_depth == 1) rd_done1 = 1;
  else rd_bad = 1;
}
long CdnsDecoder__read_integer(struct CdnsDecoder *d)
{
  MAYTHROW(0)
  long k = nondet_long();
  if (rd_break_pending) { rd_bad = 1; return 0; }
  if (rd_depth == 1 && rd_topmap && !rd_expect_val) {
    __CPROVER_assume(rd_cnt1 < (1UL << 60));   /* the input has fewer than 2^60 map entries */
    if (!rd_indef1 && rd_left1 == 0) rd_bad = 1;
    if (rd_done1) rd_bad = 1;
    rd_curkey = k; if (k == g_K) g_kseen++;
    rd_expect_val = 1;
    return k;
  }
  rd_value(K_INT, (unsigned long)k);
  return k;
}
unsigned long CdnsDecoder__read_unsigned(struct CdnsDecoder *d) { MAYTHROW(0) unsigned long v = nondet_ulong(); rd_value(K_UINT, v); return v; }
_Bool CdnsDecoder__read_bool(struct CdnsDecoder *d) { MAYTHROW(0) _Bool v = nondet_bool(); rd_value(K_BOOL, v); return v; }
cstring CdnsDecoder__read_textstring(struct CdnsDecoder *d) { cstring s; s.len = nondet_ulong(); s.id = nondet_ulong(); cstring z = s; z.len = 0; MAYTHROW(z) rd_value(K_TSTR, s.id); return s; }
cstring CdnsDecoder__read_bytestring(struct CdnsDecoder *d) { cstring s; s.len = nondet_ulong(); s.id = nondet_ulong(); cstring z = s; z.len = 0; MAYTHROW(z) rd_value(K_BSTR, s.id); return s; }
void CdnsDecoder__skip_item(struct CdnsDecoder *d) { MAYTHROW() rd_value(K_SKIPPED, 0); }
/* a member deserialised by another reader, seen through that reader's contract: consumes exactly one item */
void dec_nested(struct CdnsDecoder *d) { MAYTHROW() rd_value(K_NESTED, 0); }
