/* Byte layer, encoder constructor (C14): which writer class is created for which compression. */
#include "byte_enc_rot.h"
unsigned long g_mkw_count; int g_mkw_kind;      /* which writer class the constructor created: 0 plain, 1 gzip, 2 xz */
#define uptr_assign(p, v) (*(p) = (v))
static struct BaseCborOutputWriter *mkw(int kind) { if (g_exc) return 0; if (g_mkw_count < 1000) g_mkw_count++; g_mkw_kind = kind;
  if (nondet_bool()) g_exc = EXC_CborOutputException;   /* the output cannot be opened / the compressor cannot be initialised */
  return (struct BaseCborOutputWriter *)0; }
#define make_unique__CborOutputWriter(v) mkw(0)
#define make_unique__GzipCborOutputWriter(v) mkw(1)
#define make_unique__XzCborOutputWriter(v) mkw(2)
/* the member array m_buffer is a separately allocated object in the lowering (T2); a by-value constructed encoder has none, so the zero-fill is not modelled here */
void *lib_memset(void *p, int c, unsigned long n) { return p; }
