"""C20 (first clause only): the library keeps no shared mutable state. Exhaustive scan of every declaration with static storage
duration in the CDNS namespace (namespace scope, static data members, static locals): each must be const/constexpr.
The schedule quantifier of C20 is outside this technique family."""
from driver import ScanUnit


def static_decls(ast):
    out = []

    def walk(n, in_fn, in_rec, path):
        k = n.get('kind')
        if k == 'VarDecl':
            static = (not in_fn) or n.get('storageClass') == 'static' or n.get('tls')
            if static and not n.get('isImplicit'):
                t = n.get('type', {}).get('qualType', '')
                const = bool(n.get('constexpr')) or t.startswith('const ') or ' const' in t.split('*')[-1] or t.endswith(' const')
                loc = n.get('loc', {})
                where = '%s:%s' % (loc.get('file', loc.get('includedFrom', {}).get('file', '?')), loc.get('line', '?'))
                name = '.'.join(path + [n.get('name', '?')])
                out.append((name, const, '%s %s at %s has static storage and is %s' % (t, name, where, 'const' if const else 'MUTABLE')))
            return
        nf = in_fn or k in ('FunctionDecl', 'CXXMethodDecl', 'CXXConstructorDecl', 'CXXDestructorDecl', 'LambdaExpr')
        nr = in_rec or k in ('CXXRecordDecl', 'ClassTemplateSpecializationDecl')
        np = path + [n['name']] if k in ('CXXRecordDecl', 'FunctionDecl', 'CXXMethodDecl') and n.get('name') else path
        for c in n.get('inner', []):
            if isinstance(c, dict):
                walk(c, nf, nr, np)
    seen = set()
    for o in ast.objs:
        walk(o, False, False, [])
    res = []
    for name, ok, d in out:
        if d in seen:
            continue
        seen.add(d)
        res.append((name, ok, d))
    return res


UNITS = [ScanUnit('c20.static_storage', static_decls, props=['C20'],
                  note='every declaration with static storage duration inside namespace CDNS is const/constexpr (no shared mutable state); '
                       'the frames (assigns clauses) of all units under contract in the other checks show that no function writes outside its arguments')]
TRUSTED_BASE = ['clang 14 AST (filter CDNS::) lists every declaration of the library; libc, iostream, zlib, liblzma are thread-compatible (assumed)']
ASSUMPTIONS = ['schedules/thread interleavings are not examined: this technique family has no thread support']


# ---------------------------------------------------------------- C03: no input-controlled recursion (stack use independent of nesting depth)
def recursive_functions(ast):
    """call graph of the library (direct calls, AST level); every function on a cycle is reported"""
    calls = {}
    names = {}
    for m, d in ast.defs.items():
        r = ast.record_of(d)
        names[d['id']] = ((r.get('name') + '.') if r is not None and r.get('name') else '') + d.get('name', '?')
        out = set()

        def walk(n):
            if not isinstance(n, dict):
                return
            ref = None
            if n.get('kind') == 'DeclRefExpr':
                ref = n.get('referencedDecl', {}).get('id')
            elif n.get('kind') == 'MemberExpr':
                ref = n.get('referencedMemberDecl')
            if ref:
                df = ast.decl2def.get(ref)
                if df is not None:
                    out.add(df['id'])
            for c in n.get('inner', []):
                walk(c)
        for c in d.get('inner', []):
            if isinstance(c, dict) and c.get('kind') in ('CompoundStmt', 'CXXTryStmt'):
                walk(c)
        calls[d['id']] = out
    # functions that can reach themselves
    res = []
    for f in calls:
        seen, work = set(), list(calls[f])
        while work:
            g = work.pop()
            if g in seen:
                continue
            seen.add(g)
            work.extend(calls.get(g, ()))
        rec = f in seen
        if rec or names[f].endswith('skip_item') or names[f].endswith('.read'):
            res.append((names[f], not rec, '%s %s' % (names[f], 'calls itself (directly or indirectly): its stack use grows with the nesting depth of the input' if rec else 'is not recursive')))
    return res


UNITS.append(ScanUnit('c03.recursion', recursive_functions, props=['C03'],
                      note='call graph of the library from the AST: no read-side function may be recursive (the depth of a recursion over nested CBOR items is controlled by the input)'))
