"""C20 (first clause only): the library keeps no shared mutable state. Exhaustive scan of every declaration with static storage
duration in the CDNS namespace (namespace scope, static data members, static locals): each must be const/constexpr.
The schedule quantifier of C20 is outside this technique family."""
from driver import ScanUnit
import re


def static_decls(ast):
    out = []

    def walk(n, in_fn, in_rec, path):
        k = n.get('kind')
        if k == 'VarDecl':
            static = (not in_fn) or n.get('storageClass') == 'static' or n.get('tls')
            if static and not n.get('isImplicit'):
                t = n.get('type', {}).get('qualType', '')
                const = bool(n.get('constexpr')) or t.startswith('const ') or ' const' in t.split('*')[-1] or t.endswith(' const')
                loc = n.get('loc', {})
                where = '%s:%s' % (loc.get('file', loc.get('includedFrom', {}).get('file', '?')), loc.get('line', '?'))
                name = '.'.join(path + [n.get('name', '?')])
                out.append((name, const, '%s %s at %s has static storage and is %s' % (t, name, where, 'const' if const else 'MUTABLE')))
            return
        nf = in_fn or k in ('FunctionDecl', 'CXXMethodDecl', 'CXXConstructorDecl', 'CXXDestructorDecl', 'LambdaExpr')
        nr = in_rec or k in ('CXXRecordDecl', 'ClassTemplateSpecializationDecl')
        np = path + [n['name']] if k in ('CXXRecordDecl', 'FunctionDecl', 'CXXMethodDecl') and n.get('name') else path
        for c in n.get('inner', []):
            if isinstance(c, dict):
                walk(c, nf, nr, np)
    seen = set()
    for o in ast.objs:
        walk(o, False, False, [])
    res = []
    for name, ok, d in out:
        if d in seen:
            continue
        seen.add(d)
        res.append((name, ok, d))
    return res


UNITS = [ScanUnit('c20.static_storage', static_decls, props=['C20'],
                  note='every declaration with static storage duration inside namespace CDNS is const/constexpr (no shared mutable state); '
                       'the frames (assigns clauses) of all units under contract in the other checks show that no function writes outside its arguments')]
TRUSTED_BASE = ['clang 14 AST (filter CDNS::) lists every declaration of the library; libc, iostream, zlib, liblzma are thread-compatible (assumed)']
ASSUMPTIONS = ['schedules/thread interleavings are not examined: this technique family has no thread support']


# ---------------------------------------------------------------- C03: no input-controlled recursion (stack use independent of nesting depth)
def recursive_functions(ast):
    """call graph of the library (direct calls, AST level); every function on a cycle is reported"""
    calls = {}
    names = {}
    for m, d in ast.defs.items():
        r = ast.record_of(d)
        names[d['id']] = ((r.get('name') + '.') if r is not None and r.get('name') else '') + d.get('name', '?')
        out = set()

        def walk(n):
            if not isinstance(n, dict):
                return
            ref = None
            if n.get('kind') == 'DeclRefExpr':
                ref = n.get('referencedDecl', {}).get('id')
            elif n.get('kind') == 'MemberExpr':
                ref = n.get('referencedMemberDecl')
            if ref:
                df = ast.decl2def.get(ref)
                if df is not None:
                    out.add(df['id'])
            for c in n.get('inner', []):
                walk(c)
        for c in d.get('inner', []):
            if isinstance(c, dict) and c.get('kind') in ('CompoundStmt', 'CXXTryStmt'):
                walk(c)
        calls[d['id']] = out
    # functions that can reach themselves
    res = []
    for f in calls:
        seen, work = set(), list(calls[f])
        while work:
            g = work.pop()
            if g in seen:
                continue
            seen.add(g)
            work.extend(calls.get(g, ()))
        rec = f in seen
        if rec or names[f].endswith('skip_item') or names[f].endswith('.read'):
            res.append((names[f], not rec, '%s %s' % (names[f], 'calls itself (directly or indirectly): its stack use grows with the nesting depth of the input' if rec else 'is not recursive')))
    return res


UNITS.append(ScanUnit('c03.recursion', recursive_functions, props=['C03'],
                      note='call graph of the library from the AST: no read-side function may be recursive (the depth of a recursion over nested CBOR items is controlled by the input)'))


# ---------------------------------------------------------------- C20: writable static storage in the compiled library (every translation unit, every scope)
def object_data(ast):
    """compiles src/*.cpp (g++ -c) and lists every defined symbol that lives in a writable section (.data/.bss, also function-local statics and
    anonymous-namespace objects, which the CDNS:: AST filter does not see). Allowed: compiler/runtime artefacts (typeinfo, vtables, guard
    variables, std::__ioinit) and objects the AST scan shows to be const (dynamically initialised const tables live in .bss)."""
    import subprocess, tempfile, glob, shutil, astload
    from concurrent.futures import ThreadPoolExecutor
    repo = astload.REPO
    srcs = sorted(glob.glob(os.path.join(repo, 'src', '*.cpp')))
    wd = tempfile.mkdtemp(prefix='cdnsverif-c20-')
    try:
        def cc(f):
            o = os.path.join(wd, os.path.basename(f)[:-4] + '.o')
            r = subprocess.run(['g++', '-std=c++14', '-msse4', '-O1', '-c', '-I', os.path.join(repo, 'src'), f, '-o', o], stdout=subprocess.PIPE, stderr=subprocess.PIPE)
            if r.returncode != 0:
                raise RuntimeError('g++ failed on %s: %s' % (f, r.stderr.decode()[-500:]))
            return o
        with ThreadPoolExecutor(max_workers=8) as ex:
            objs = list(ex.map(cc, srcs))
        const_names = set(n.split('.')[-1] for n, ok, d in static_decls(ast) if ok)
        res = []
        seen = set()
        for o in objs:
            out = subprocess.run(['objdump', '-t', '-C', o], stdout=subprocess.PIPE).stdout.decode()
            for line in out.splitlines():
                m = re.match(r'^[0-9a-f]+ (.{7}) (\S+)\t[0-9a-f]+ (.*)$', line)
                if not m or 'O' not in m.group(1):
                    continue           # objects only
                sec, name = m.group(2), m.group(3).replace('.hidden ', '')
                writable = sec.startswith(('.bss', '.tbss', '.tdata', '.data')) and not sec.startswith('.data.rel.ro')
                if not writable:
                    continue
                key = (os.path.basename(o), name)
                if key in seen:
                    continue
                seen.add(key)
                artefact = name.startswith(('typeinfo ', 'vtable ', 'guard variable ', 'VTT ', 'std::__ioinit', 'DW.ref.', '__'))
                base = name.split('::')[-1]
                is_const = name.startswith('CDNS::') and base in const_names
                ok = artefact or is_const
                res.append(('%s:%s' % (os.path.basename(o), name), ok,
                            '%s defines %s in the writable section %s: %s' % (os.path.basename(o), name, sec,
                             'compiler/runtime artefact' if artefact else 'const object per the AST scan (dynamically initialised)' if is_const else 'MUTABLE static storage')))
        return res
    finally:
        shutil.rmtree(wd, ignore_errors=True)


import os
UNITS.append(ScanUnit('c20.object_data', object_data, props=['C20'],
                      note='symbol tables of the compiled library objects: no object of static storage duration in a writable section other than compiler artefacts and '
                           'const tables - covers function-local statics, anonymous namespaces and file-scope helpers that the AST filter does not see'))
