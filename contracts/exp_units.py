"""Exporter level (C02, C10, C12, C13, C16 part): CdnsExporter functions over the grammar monitor of the current output."""
from driver import Unit
from item_units import P, EXT, ENC_STUBS, NESTED
from block_units import PRE_C, BLOCK_SIZES, TABLES

EXP = 'CdnsExporter::'
DEF = ['WITH_MON']
HEADER_OPEN = '(g_mon.t == 2 && g_mon.indef[2] && !g_mon.ismap[2] && !g_mon.indef[1] && g_mon.need[1] == 0 && g_mon.need[0] == 0 && g_mon.done[0] == 1 && !g_mon.bad)'
EXP_INV = '(($E)->m_blocks_written == 0 ? (MON_FRESH && g_bytes == 0) : (' + HEADER_OPEN + ' && g_mon.done[2] == ($E)->m_blocks_written && g_bytes > 0))'
BLOCK_OK = '(($B)->m_block_parameters.storage_parameters.ticks_per_second >= 1 && ' + BLOCK_SIZES.format(b='($B)->') + ')'
ITEMS = '(($B)->m_query_responses.n + ($B)->m_address_event_counts.n + ($B)->m_malformed_messages.n)'
EMPTYBLK = '(' + ' && '.join('($B)->%s.n == 0' % t for t in TABLES + ['m_query_responses', 'm_address_event_counts', 'm_malformed_messages']) + ' && !($B)->m_block_statistics.has)'
GASSIGN = 'g_mon, g_bytes, g_exc, kt_depth, kt_topmap, kt_isval, kt_left, kt_n, kt_topn, kt_pairs, kt_topleafs, kt_over, g_kcount, g_kkind, g_kval, g_curkey, g_keybad, g_ekind, g_eval, g_eseen, g_lit'
SCR = lambda b: ', '.join('%s%s.cur' % (b, t) for t in TABLES + ['m_query_responses', 'm_address_event_counts', 'm_malformed_messages'])


def inv(e):
    return EXP_INV.replace('$E', e)


# ---------------------------------------------------------------- write_file_header
WFH_C = '''
__CPROVER_requires(__CPROVER_w_ok($this, sizeof(*$this)) && g_exc == 0 && MON_FRESH && g_bytes == 0)
__CPROVER_requires($this->m_file_preamble.m_block_parameters.n < (1UL << 56))
__CPROVER_assigns(''' + GASSIGN + ''')
__CPROVER_ensures(g_exc == 0 || g_exc == EXC_CborOutputException)
__CPROVER_ensures(g_exc == 0 ==> (''' + HEADER_OPEN + ''' && g_mon.done[2] == 0 && g_mon.done[1] == 3))
__CPROVER_ensures(g_exc == 0 ==> ($ret == g_bytes && g_bytes >= 4 && g_bytes < (1UL << 42)))
'''
UNITS = [Unit('exp.write_file_header', (EXP + 'write_file_header', None), contract=WFH_C, prelude=P, pre_c=PRE_C, defines=DEF + ['ENC_MAY_FAIL'],
              extern_records=EXT, stubs=ENC_STUBS + ['cstring__lit'], gen_stubs=NESTED,
              setup='  static struct CdnsExporter obj;\n  mon_init();\n  __CPROVER_assume(obj.m_file_preamble.m_block_parameters.n < (1UL << 56));\n',
              args=['&obj'], props=['C02', 'C10', 'C13'],
              note='file array of 3: type id text string, preamble (by contract of FilePreamble::write), open indefinite array of blocks')]

# ---------------------------------------------------------------- write_block(CdnsBlock&)
GH_WB = [('struct mon', 'M0', 'g_mon'), ('unsigned long', 'B0', 'g_bytes'), ('unsigned long', 'W0', '$this->m_blocks_written')]
WBB_C = '''
__CPROVER_requires(__CPROVER_w_ok($this, sizeof(*$this)) && __CPROVER_w_ok($1, sizeof(*$1)) && g_exc == 0)
__CPROVER_requires(''' + inv('$this') + ''' && $this->m_blocks_written < (1UL << 62) && g_bytes < (1UL << 62))
__CPROVER_requires(''' + BLOCK_OK.replace('$B', '$1') + ''')
__CPROVER_requires($this->m_file_preamble.m_block_parameters.n < (1UL << 56))
__CPROVER_assigns(''' + GASSIGN + ''', $this->m_blocks_written)
__CPROVER_ensures(g_exc == 0 || g_exc == EXC_CborOutputException)
__CPROVER_ensures(''' + ITEMS.replace('$B', '$1') + ''' == 0 ==> (g_exc == 0 && $ret == 0 && $this->m_blocks_written == @W0 && g_bytes == @B0 && ''' + inv('$this') + '''))
__CPROVER_ensures((''' + ITEMS.replace('$B', '$1') + ''' != 0 && g_exc == 0) ==> ($this->m_blocks_written == @W0 + 1 && ''' + inv('$this') + ''' && $ret == g_bytes - @B0 && $ret != 0))
'''
UNITS.append(Unit('exp.write_block_b', (EXP + 'write_block', 'std::size_t (CDNS::CdnsBlock &)'), contract=WBB_C, prelude=P, pre_c=PRE_C,
                  defines=DEF + ['ENC_MAY_FAIL'], extern_records=EXT, stubs=ENC_STUBS + ['cstring__lit', 'BlockTable_[A-Za-z]+__size'],
                  inline=[('CdnsBlock::get_item_count', None)], replace=['exp.write_file_header'], gen_stubs=NESTED, ghost=GH_WB,
                  setup='  static struct CdnsExporter obj; static struct CdnsBlock blk;\n  __CPROVER_assume(' + inv('&obj') + ' && obj.m_blocks_written < (1UL << 62) && g_bytes < (1UL << 62));\n'
                        '  __CPROVER_assume(' + BLOCK_OK.replace('$B', '&blk') + ');\n  __CPROVER_assume(obj.m_file_preamble.m_block_parameters.n < (1UL << 56));\n',
                  args=['&obj', '&blk'], props=['C02', 'C10', 'C12', 'C13'], timeout=900,
                  post='  if (g_exc != 0) { CANARY("output failure reachable"); }',
                  note='an empty block writes nothing and returns 0; otherwise the header is written iff this is the first block of the output, '
                       'then exactly one block item; returned count = bytes appended'))
TRUSTED_BASE = ['as item layer (w.* units)', 'CdnsBlock::write / FilePreamble::write by their contracts (w.CdnsBlock.write, w.FilePreamble)',
                'grammar monitor (A): counts per open container, one output at a time']
ASSUMPTIONS = ['blocks written to one output < 2^62, bytes < 2^62', 'ticks_per_second >= 1 for every block written']

# ---------------------------------------------------------------- write_block()
PRE2 = PRE_C + '#define SEQ_INV_BlockParameters(p) ((p)->storage_parameters.ticks_per_second >= 1)\n'
BOUNDS = '$this->m_blocks_written < (1UL << 62) && g_bytes < (1UL << 62)'
INV2 = inv('$this') + ' && ' + BLOCK_OK.replace('$B', '&$this->m_block') + \
    ' && $this->m_file_preamble.m_block_parameters.n < (1UL << 56) && $this->m_active_block_parameters < $this->m_file_preamble.m_block_parameters.n' \
    ' && ($this->m_file_preamble.m_block_parameters.wi >= $this->m_file_preamble.m_block_parameters.n || SEQ_INV_BlockParameters(&$this->m_file_preamble.m_block_parameters.wv))'
GH_W = [('unsigned long', 'B0', 'g_bytes'), ('unsigned long', 'W0', '$this->m_blocks_written'),
        ('unsigned long', 'N0', ITEMS.replace('$B', '&$this->m_block')), ('unsigned long', 'Q0', '$this->m_block.m_query_responses.n'),
        ('unsigned long', 'A0', '$this->m_block.m_address_event_counts.n'), ('unsigned long', 'MM0', '$this->m_block.m_malformed_messages.n')]
UNCHANGED = '($this->m_block.m_query_responses.n == @Q0 && $this->m_block.m_address_event_counts.n == @A0 && $this->m_block.m_malformed_messages.n == @MM0)'
# the new block is armed with the *current* content of the active parameter set (stated for the watched element of the preamble's list)
_SPW = '$this->m_file_preamble.m_block_parameters.wv.storage_parameters'
_SPB = '$this->m_block.m_block_parameters.storage_parameters'
REARMED = '(' + ' && '.join('%s.%s == %s.%s' % (_SPB, f, _SPW, f) for f in ('ticks_per_second', 'max_block_items', 'storage_hints.query_response_hints',
           'storage_hints.query_response_signature_hints', 'storage_hints.rr_hints', 'storage_hints.other_data_hints')) + ')'
WB_C = '''
__CPROVER_requires(__CPROVER_w_ok($this, sizeof(*$this)) && g_exc == 0)
__CPROVER_requires(''' + INV2 + ''' && ''' + BOUNDS + ''')
__CPROVER_assigns(''' + GASSIGN + ''', $this->m_blocks_written, seq_BlockParameters__cur, __CPROVER_object_whole(&$this->m_block))
__CPROVER_ensures(g_exc == 0 || g_exc == EXC_CborOutputException)
__CPROVER_ensures(g_exc != 0 ==> ''' + UNCHANGED + ''')
__CPROVER_ensures(g_exc == 0 ==> (''' + EMPTYBLK.replace('$B', '&$this->m_block') + ''' && ''' + INV2 + '''))
__CPROVER_ensures(g_exc == 0 ==> $this->m_block.m_block_preamble.block_parameters_index.has && $this->m_block.m_block_preamble.block_parameters_index.val == $this->m_active_block_parameters)
__CPROVER_ensures((g_exc == 0 && @N0 == 0) ==> ($ret == 0 && $this->m_blocks_written == @W0 && g_bytes == @B0))
__CPROVER_ensures((g_exc == 0 && @N0 != 0) ==> ($ret != 0 && $ret == g_bytes - @B0 && $this->m_blocks_written == @W0 + 1))
__CPROVER_ensures((g_exc == 0 && $this->m_active_block_parameters == $this->m_file_preamble.m_block_parameters.wi) ==> ''' + REARMED + ''')
'''
BLK_INL = [('CdnsBlock::clear', None), ('CdnsBlock::set_block_parameters', None), ('CdnsBlock::get_item_count', None),
           ('FilePreamble::get_block_parameters', None), ('Timestamp::Timestamp', 'void (uint64_t, uint64_t)')]
BLK_STUBS = ENC_STUBS + ['cstring__lit', 'BlockTable_[A-Za-z]+__size', 'BlockTable_[A-Za-z]+__clear']
EXP_SETUP = '  static struct CdnsExporter obj;\n  __CPROVER_assume(' + (INV2 + ' && ' + BOUNDS).replace('$this', '(&obj)') + ');\n'
UNITS.append(Unit('exp.write_block', (EXP + 'write_block', 'std::size_t ()'), contract=WB_C, prelude=P, pre_c=PRE2,
                  defines=DEF + ['ENC_MAY_FAIL'], extern_records=EXT, stubs=BLK_STUBS, inline=BLK_INL, replace=['exp.write_block_b'],
                  ghost=GH_W, setup=EXP_SETUP, args=['&obj'], props=['C02', 'C10', 'C12', 'C13', 'C16', 'C04'], timeout=900, split=True,
                  post='  if (g_exc != 0) { CANARY("output failure reachable"); }',
                  note='write, then clear, then re-arm with the active parameters; on an output failure the buffered records are untouched'))

# ---------------------------------------------------------------- rotate_output<T>
unsigned = None
ROT_STUB = [(r'^CdnsEncoder__rotate_output$',
             '  if (g_exc) return;\n'
             '  /* the output being closed must be empty or exactly one complete item */\n'
             '  __CPROVER_assert((MON_FRESH && g_bytes == 0) || (g_mon.t == 0 && g_mon.need[0] == 0 && g_mon.done[0] == 1 && !g_mon.bad), "rotation closes an output that is empty or one complete C-DNS item");\n'
             '  g_closed_bytes = g_bytes;\n'
             '  if (nondet_bool()) { g_exc = EXC_CborOutputException; return; }\n'
             '  mon_init();')]
GH_R = GH_W
ROT_C = '''
__CPROVER_requires(__CPROVER_w_ok($this, sizeof(*$this)) && g_exc == 0)
__CPROVER_requires(''' + INV2 + ''' && ''' + BOUNDS + ''')
__CPROVER_assigns(''' + GASSIGN + ''', g_closed_bytes, $this->m_blocks_written, seq_BlockParameters__cur, __CPROVER_object_whole(&$this->m_block))
__CPROVER_ensures(g_exc == 0 || g_exc == EXC_CborOutputException)
__CPROVER_ensures(g_exc == 0 ==> ($this->m_blocks_written == 0 && ''' + INV2 + '''))
__CPROVER_ensures(g_exc == 0 ==> $ret == g_closed_bytes - @B0)
__CPROVER_ensures((g_exc == 0 && $2) ==> ''' + EMPTYBLK.replace('$B', '&$this->m_block') + ''')
__CPROVER_ensures((g_exc == 0 && !$2) ==> ''' + UNCHANGED + ''')
__CPROVER_ensures((g_exc == 0 && @W0 == 0 && (!$2 || @N0 == 0)) ==> (g_closed_bytes == 0 && $ret == 0))
'''
for tname, sig, argdecl, arg in [('string', 'std::size_t (const std::basic_string<char> &, bool)', '  cstring out;\n', '&out'),
                                 ('fd', 'std::size_t (const int &, bool)', '  int out;\n', '&out')]:
    UNITS.append(Unit('exp.rotate_output.' + tname, (EXP + 'rotate_output', sig), contract=ROT_C, prelude=P,
                      pre_c=PRE2 + 'unsigned long g_closed_bytes;\n', defines=DEF + ['ENC_MAY_FAIL'], extern_records=EXT, stubs=BLK_STUBS,
                      replace=['exp.write_block', 'exp.write_block_b'], inline=BLK_INL, gen_stubs=ROT_STUB, ghost=GH_R, setup=EXP_SETUP + argdecl + '  _Bool a_export;\n',
                      args=['&obj', arg, 'a_export'], props=['C02', 'C10', 'C13', 'C16', 'C15'], timeout=900,
                      post='  if (g_exc != 0) { CANARY("output failure reachable"); }',
                      note='optional export, stop code iff a header was written, then the encoder switches outputs: the closed output is empty or '
                           'one complete item (asserted at the switch), the new one starts empty with the block counter reset; without export '
                           'the buffered records stay buffered'))

# ---------------------------------------------------------------- ~CdnsExporter
DT_C = '''
__CPROVER_requires(__CPROVER_w_ok($this, sizeof(*$this)) && g_exc == 0)
__CPROVER_requires(''' + inv('$this') + ''' && g_bytes < (1UL << 62))
__CPROVER_assigns(''' + GASSIGN + ''')
__CPROVER_ensures(g_exc == 0)
__CPROVER_ensures(@W0 == 0 ==> (MON_FRESH && g_bytes == 0))
__CPROVER_ensures(@W0 != 0 ==> ((g_mon.t == 0 && g_mon.need[0] == 0 && g_mon.done[0] == 1 && !g_mon.bad && g_bytes == @B0 + 1) || g_dtor_failed))
'''
UNITS.append(Unit('exp.dtor', (EXP + '~CdnsExporter', None), contract=DT_C, prelude=P, pre_c=PRE2 + '_Bool g_dtor_failed;\n', defines=DEF,
                  extern_records=EXT, stubs=ENC_STUBS, replace=['exp.write_block', 'exp.write_block_b'], ghost=[('unsigned long', 'B0', 'g_bytes'), ('unsigned long', 'W0', '$this->m_blocks_written')],
                  setup='  static struct CdnsExporter obj;\n  __CPROVER_assume(' + inv('(&obj)') + ' && g_bytes < (1UL << 62));\n  g_dtor_failed = 0;\n',
                  args=['&obj'], props=['C02', 'C10', 'C13', 'C15'],
                  note='destruction closes the block array with exactly one stop code iff a header was written (the "+1" of C10); '
                       'no output failure in this unit (the destructor cannot report one)'))

# ---------------------------------------------------------------- buffer_qr / buffer_aec / buffer_mm  (C12)
MAXI = '$this->m_block.m_block_parameters.storage_parameters.max_block_items'
NOTFULL = '($this->m_block.m_query_responses.n < (MAXI_ == 0 ? 1UL : MAXI_) && $this->m_block.m_address_event_counts.n < (MAXI_ == 0 ? 1UL : MAXI_) && $this->m_block.m_malformed_messages.n < (MAXI_ == 0 ? 1UL : MAXI_))'.replace('MAXI_', MAXI)
FULLB = '((B)->m_query_responses.n >= (B)->m_block_parameters.storage_parameters.max_block_items || (B)->m_address_event_counts.n >= (B)->m_block_parameters.storage_parameters.max_block_items || (B)->m_malformed_messages.n >= (B)->m_block_parameters.storage_parameters.max_block_items)'
# the add_* functions seen through their contracts (add.* units): exactly one array grows by at most one, nothing else of the view changes, result = full()
ADD_STUB = lambda arr: ('  if (g_exc) return 0;\n  if (nondet_bool()) { __CPROVER_assume($P0->%s.n < (1UL << 55)); $P0->%s.n++; }\n'
                        '  if (nondet_bool()) { $P0->m_block_statistics.has = 1; }\n  return ' % (arr, arr) + FULLB.replace('(B)', '$P0') + ';')
BUF_C = '''
__CPROVER_requires(__CPROVER_w_ok($this, sizeof(*$this)) && g_exc == 0)
__CPROVER_requires(''' + INV2 + ''' && ''' + BOUNDS + ''' && ''' + NOTFULL + ''')
__CPROVER_assigns(''' + GASSIGN + ''', $this->m_blocks_written, seq_BlockParameters__cur, __CPROVER_object_whole(&$this->m_block))
__CPROVER_ensures(g_exc == 0 || g_exc == EXC_CborOutputException)
__CPROVER_ensures(g_exc == 0 ==> (''' + INV2 + ''' && ''' + NOTFULL + '''))
__CPROVER_ensures(g_exc == 0 ==> (($ret != 0) == ($this->m_blocks_written == @W0 + 1)))
__CPROVER_ensures(g_exc == 0 ==> ($this->m_blocks_written == @W0 || $this->m_blocks_written == @W0 + 1))
__CPROVER_ensures(g_exc == 0 ==> $ret == g_bytes - @B0)
__CPROVER_ensures((g_exc == 0 && $this->m_blocks_written == @W0) ==> (%(arr)s.n == @X0 || %(arr)s.n == @X0 + 1 || (@N0 == 0 && %(arr)s.n == 0)))
'''
for nm, fn, arr in [('buffer_qr', 'add_question_response_record', 'm_query_responses'), ('buffer_aec', 'add_address_event_count', 'm_address_event_counts'),
                    ('buffer_mm', 'add_malformed_message', 'm_malformed_messages')]:
    UNITS.append(Unit('exp.' + nm, (EXP + nm, None), contract=BUF_C % {'arr': '$this->m_block.' + arr}, prelude=P, pre_c=PRE2,
                      defines=DEF + ['ENC_MAY_FAIL'], extern_records=EXT, stubs=BLK_STUBS, replace=['exp.write_block'],
                      gen_stubs=[(r'^CdnsBlock__%s__\w+$' % fn, ADD_STUB(arr))],
                      ghost=GH_W + [('unsigned long', 'X0', '$this->m_block.%s.n' % arr)],
                      setup=EXP_SETUP.replace(');\n', ' && ' + NOTFULL.replace('$this', '(&obj)') + ');\n') + '  static struct Generic%s rec; static struct opt_BlockStatistics st;\n' %
                      {'buffer_qr': 'QueryResponse', 'buffer_aec': 'AddressEventCount', 'buffer_mm': 'MalformedMessage'}[nm],
                      args=['&obj', '&rec', '&st'], props=['C12', 'C10', 'C02'], timeout=900,
                      post='  if (g_exc != 0) { CANARY("output failure reachable"); }',
                      note='between calls no array has reached max(1, max_block_items); a block is written exactly when the add reports full(); '
                           'the result is non-zero exactly when a block was written and equals the bytes appended'))

# ---------------------------------------------------------------- block parameter selection (keeps "active index < number of parameter sets", which write_block() relies on)
_N = '$this->m_file_preamble.m_block_parameters.n'
SAP_C = '''
__CPROVER_requires(__CPROVER_w_ok($this, sizeof(*$this)) && g_exc == 0 && $this->m_active_block_parameters < ''' + _N + ''')
__CPROVER_assigns($this->m_active_block_parameters)
__CPROVER_ensures(g_exc == 0 && ($ret != 0) == ((unsigned long)$1 < ''' + _N + '''))
__CPROVER_ensures($ret ? $this->m_active_block_parameters == $1 : $this->m_active_block_parameters == @A0)
__CPROVER_ensures($this->m_active_block_parameters < ''' + _N + ''')
'''
UNITS.append(Unit('exp.set_active_block_parameters', (EXP + 'set_active_block_parameters', None), contract=SAP_C, prelude=P, pre_c=PRE2, extern_records=EXT,
                  stubs=['seq_[A-Za-z0-9_]+__size'], ghost=[('unsigned int', 'A0', '$this->m_active_block_parameters')], auto_inline=[r'FilePreamble__block_parameters_size'],
                  setup='  static struct CdnsExporter obj; unsigned int a_i;\n  __CPROVER_assume(obj.m_active_block_parameters < obj.m_file_preamble.m_block_parameters.n);\n', args=['&obj', 'a_i'],
                  props=['C12', 'C04', 'C03'], timeout=300, post='  if (!r) { CANARY("refusal reachable"); }',
                  note='an index outside the preamble\'s list of parameter sets is refused and changes nothing; the active index always addresses an existing set'))
ABP_C = '''
__CPROVER_requires(__CPROVER_w_ok($this, sizeof(*$this)) && __CPROVER_r_ok($1, sizeof(*$1)) && g_exc == 0 && $this->m_active_block_parameters < ''' + _N + ''' && ''' + _N + ''' < (1UL << 31))
__CPROVER_requires(SEQ_INV_BlockParameters($1))
__CPROVER_assigns($this->m_file_preamble.m_block_parameters)
__CPROVER_ensures(g_exc == 0 && ''' + _N + ''' == @N0 + 1 && $ret == (unsigned int)@N0 && $this->m_active_block_parameters < ''' + _N + ''')
__CPROVER_ensures($this->m_file_preamble.m_block_parameters.wi == @N0 ==> ($this->m_file_preamble.m_block_parameters.wv.storage_parameters.ticks_per_second == $1->storage_parameters.ticks_per_second && $this->m_file_preamble.m_block_parameters.wv.storage_parameters.max_block_items == $1->storage_parameters.max_block_items))
'''
UNITS.append(Unit('exp.add_block_parameters', (EXP + 'add_block_parameters', None), contract=ABP_C, prelude=P, pre_c=PRE2, extern_records=EXT,
                  stubs=['seq_[A-Za-z0-9_]+__(size|push_back)'], ghost=[('unsigned long', 'N0', _N)], auto_inline=[r'FilePreamble__add_block_parameters'],
                  setup='  static struct CdnsExporter obj; static struct BlockParameters a_bp;\n  __CPROVER_assume(obj.m_active_block_parameters < obj.m_file_preamble.m_block_parameters.n && obj.m_file_preamble.m_block_parameters.n < (1UL << 31) && SEQ_INV_BlockParameters(&a_bp));\n', args=['&obj', '&a_bp'],
                  props=['C12', 'C04'], timeout=300,
                  note='a new parameter set is appended to the preamble\'s list and its index returned; existing sets and the active index are untouched'))

# ---------------------------------------------------------------- constructors: the exporter invariant holds initially (base case of every "for all call histories" claim)
def _ret(t):
    return t.replace('($this)->', '$ret.').replace('&$this->', '&$ret.').replace('$this->', '$ret.')
CTOR_C = '''
__CPROVER_requires(__CPROVER_w_ok($1, sizeof(*$1)) && g_exc == 0 && MON_FRESH && g_bytes == 0)
__CPROVER_requires($1->m_block_parameters.n < (1UL << 56) && ($1->m_block_parameters.wi >= $1->m_block_parameters.n || SEQ_INV_BlockParameters(&$1->m_block_parameters.wv)))
__CPROVER_assigns(seq_BlockParameters__cur, g_exc)
__CPROVER_ensures(g_exc == 0 || g_exc == EXC_CborOutputException || g_exc == EXC_runtime_error)
__CPROVER_ensures((g_exc == EXC_runtime_error) == ($1->m_block_parameters.n == 0))
__CPROVER_ensures(g_exc == 0 ==> (''' + _ret(INV2) + '''))
__CPROVER_ensures(g_exc == 0 ==> ($ret.m_blocks_written == 0 && $ret.m_active_block_parameters == 0 && $ret.m_file_preamble.m_block_parameters.n == $1->m_block_parameters.n))
__CPROVER_ensures(g_exc == 0 ==> ($ret.m_block.m_block_preamble.block_parameters_index.has && $ret.m_block.m_block_preamble.block_parameters_index.val == 0))
__CPROVER_ensures((g_exc == 0 && $1->m_block_parameters.wi == 0) ==> ''' + _ret(REARMED).replace('$ret.m_file_preamble.m_block_parameters.wv', '$1->m_block_parameters.wv') + ''')
'''
for tag, mn, argt in (('fd', '_ZN4CDNS12CdnsExporterC1IiEERNS_12FilePreambleERKT_NS_21CborOutputCompressionE', 'int'),
                      ('string', '_ZN4CDNS12CdnsExporterC1INSt7__cxx1112basic_stringIcSt11char_traitsIcESaIcEEEEERNS_12FilePreambleERKT_NS_21CborOutputCompressionE', 'cstring')):
    UNITS.append(Unit('exp.ctor.' + tag, ('@' + mn, None), contract=CTOR_C, prelude=P, pre_c=PRE2, extern_records=EXT,
                      stubs=BLK_STUBS + ['seq_[A-Za-z0-9_]+__(size|at|assign|push_back|clear)', 'umap_[A-Za-z0-9_]+__(clear|begin)'],
                      gen_stubs=[(r'^CdnsEncoder__ctor__\w+$', '  struct CdnsEncoder e;\n  if (g_exc) return e;\n  if (nondet_bool()) g_exc = EXC_CborOutputException;   /* the output cannot be opened */\n  return e;')],
                      inline=[('FilePreamble::get_block_parameters', None), ('CdnsBlock::set_block_parameters', None)],
                      auto_inline=[r'(?!CdnsEncoder)[A-Za-z]+__ctor__\w+', r'[A-Za-z]+__default', r'[A-Za-z]+__op_assign\w*'],
                      extra_c='struct seq_u8 g_OpCodesDefault; struct seq_u16 g_RrTypesDefault;\n',
                      setup='  static struct FilePreamble fp; %s a_out; unsigned char a_c;\n  mon_init();\n  __CPROVER_assume(fp.m_block_parameters.n < (1UL << 56) && (fp.m_block_parameters.wi >= fp.m_block_parameters.n || SEQ_INV_BlockParameters(&fp.m_block_parameters.wv)));\n' % argt,
                      args=['&fp', '&a_out', 'a_c'], props=['C12', 'C02', 'C13', 'C04'], timeout=600,
                      post='  if (g_exc != 0) { CANARY("constructor failure reachable"); }',
                      note='a new exporter satisfies the exporter invariant: nothing emitted, no block written, active parameter set 0 exists (a preamble without parameter sets is refused), '
                           'the block is empty and armed with the content of parameter set 0'))

# ---------------------------------------------------------------- the counters the exporter reports (C12): they are the counts of the block being filled and of the blocks written
from block_units import _CNT_REQ, _SZ_STUBS
_B = '$this->m_block.'
for _fn, _callee, _ens in (('get_block_item_count', 'blk.get_item_count', '$ret == %sm_query_responses.n + %sm_address_event_counts.n + %sm_malformed_messages.n' % (_B, _B, _B)),
                           ('get_block_qr_count', 'blk.get_qr_count', '$ret == %sm_query_responses.n' % _B),
                           ('get_block_aec_count', 'blk.get_aec_count', '$ret == %sm_address_event_counts.n' % _B),
                           ('get_block_mm_count', 'blk.get_mm_count', '$ret == %sm_malformed_messages.n' % _B),
                           ('get_blocks_written_count', None, '$ret == $this->m_blocks_written')):
    UNITS.append(Unit('exp.' + _fn, (EXP + _fn, None),
                      contract=_CNT_REQ.replace('$this->m_', '$this->m_block.m_') + '__CPROVER_ensures(g_exc == 0 && (%s))\n' % _ens,
                      prelude=P, pre_c=PRE2, extern_records=EXT, stubs=_SZ_STUBS, replace=[_callee] if _callee else [],
                      setup='  static struct CdnsExporter obj;\n  __CPROVER_assume(obj.m_block.m_query_responses.n < (1UL << 60) && obj.m_block.m_address_event_counts.n < (1UL << 60) && obj.m_block.m_malformed_messages.n < (1UL << 60));\n',
                      args=['&obj'], props=['C12'], timeout=300,
                      note='reported counter = the corresponding count of the block being filled / the number of blocks written to the current output'))
