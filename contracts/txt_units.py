"""Text renderers (C03): the two file-scope helpers of interface.cpp on arbitrary (malformed) wire-format names / addresses."""
from driver import Unit

P = 'txt.h'
DN = '_ZL18get_readable_dnameRNSt7__cxx1112basic_stringIcSt11char_traitsIcESaIcEEE'
IP = '_ZL23get_readable_ip_addressRNSt7__cxx1112basic_stringIcSt11char_traitsIcESaIcEEEb'
# the string's storage ends exactly at the end of an object, so any access past the terminator is an out-of-bounds access
STORE = '  static cstring s; static char store[65536];\n  __CPROVER_assume(s.len <= 65535);\n  s.buf = store + (65535 - s.len);\n'
DN_C = '''
__CPROVER_requires(__CPROVER_r_ok($1, sizeof(*$1)) && g_exc == 0 && $1->len < (1UL << 30))
__CPROVER_requires(__CPROVER_w_ok($1->buf, $1->len + 1) && $1->buf[$1->len] == 0)
__CPROVER_assigns(__CPROVER_object_whole($1->buf))
__CPROVER_ensures(g_exc == 0 && $ret.len <= $1->len)
__CPROVER_ensures($1->buf[$1->len] == 0)
'''
# locals: $L1 dname, $L2 labels, $L3 size, $L4 label_len, $L5 pos
DN_L = '''
  __CPROVER_assigns($L2, $L3, $L4, $L5, __CPROVER_object_whole($1->buf))
  __CPROVER_loop_invariant(g_exc == 0 && $L1.buf == $1->buf && $L1.len == $1->len && $1->buf[$1->len] == 0)
  __CPROVER_loop_invariant($L3 >= 0 && (unsigned long)$L3 <= $1->len && $L5 <= $1->len + 256)
  __CPROVER_decreases($1->len - (unsigned long)$L3)
'''
UNITS = [Unit('txt.get_readable_dname', ('@' + DN, None), contract=DN_C, loops={1: DN_L}, prelude=P, stubs=['cstring__\\w+'],
              setup=STORE + '  __CPROVER_assume(s.buf[s.len] == 0);\n', args=['&s'],
              props=['C03'], timeout=600,
              note='wire-format name of any length and content (label lengths pointing anywhere): every access stays within the string\'s storage [0, size()], '
                   'the terminator is not overwritten, the loop terminates, the result is not longer than the input')]
IP_C = '''
__CPROVER_requires(__CPROVER_r_ok($1, sizeof(*$1)) && g_exc == 0 && $1->len < (1UL << 30))
__CPROVER_requires(__CPROVER_r_ok($1->buf, $1->len + 1) && $1->buf[$1->len] == 0)
__CPROVER_requires(($2 != 0) == ($1->len == 16))
__CPROVER_assigns(g_ntop_len)
__CPROVER_ensures(g_exc == 0)
'''
UNITS.append(Unit('txt.get_readable_ip_address', ('@' + IP, None), contract=IP_C, prelude=P, stubs=['cstring__\\w+', 'lib_inet_ntop', 'lib_strlen'],
                  setup=STORE + '  _Bool a_v6;\n  __CPROVER_assume(s.buf[s.len] == 0 && (a_v6 != 0) == (s.len == 16));\n', args=['&s', 'a_v6'],
                  props=['C03'], timeout=600,
                  note='binary address of any length (the callers pass ipv6 = (size == 16)): inet_ntop only ever reads bytes that belong to the string'))
TRUSTED_BASE = ['std::string with real storage of size()+1 bytes, NUL-terminated; inet_ntop/strlen per POSIX', 'cdns2c lowering (file-scope helpers dumped by a second AST filter); CBMC 6.11 dfcc']
ASSUMPTIONS = ['strings of at most 65535 bytes in the harness (the loop contract itself is not bounded)']
