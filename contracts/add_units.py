"""Record -> block conversion (C04 hints, C12 growth/full, C17 earliest-time invariant, C11/C02 index closure by counting)."""
import sys, os
sys.path.insert(0, os.path.join(os.path.dirname(os.path.abspath(__file__)), '..', 'spec'))
from driver import Unit
import rfc8618_maps as RFC
from block_units import PRE_C, TABLES, QR_ANY, MM_ANY

P = 'item_add.h'
BLK = 'CdnsBlock::'
# table insertion wrappers of block.h seen through their contract (A7): return an index, may grow the table by one; counted per table
TABLE_STUBS = [
    (r'^CdnsBlock__add_ip_address$', '  if (g_exc) return 0;\n  g_cnt_ip++; return nondet_index();'),
    (r'^CdnsBlock__add_name_rdata$', '  if (g_exc) return 0;\n  g_cnt_name++; return nondet_index();'),
    (r'^CdnsBlock__add_classtype$', '  if (g_exc) return 0;\n  g_cnt_ct++; return nondet_index();'),
    (r'^CdnsBlock__add_qr_signature$', '  if (g_exc) return 0;\n  g_cnt_sig++; g_last_sig = *$P1; return nondet_index();'),
    (r'^CdnsBlock__add_malformed_message_data$', '  if (g_exc) return 0;\n  g_cnt_mmd++; g_last_mmd = *$P1; return nondet_index();'),
    (r'^CdnsBlock__add_generic_qlist$', '  if (g_exc) return 0;\n  g_cnt_qlist++; return nondet_index();'),
    (r'^CdnsBlock__add_generic_rrlist$', '  if (g_exc) return 0;\n  g_cnt_rrlist++; return nondet_index();'),
    (r'^CdnsBlock__add_question$', '  if (g_exc) return 0;\n  g_cnt_q++; g_last_q = *$P1; return nondet_index();'),
    (r'^CdnsBlock__add_rr$', '  if (g_exc) return 0;\n  g_cnt_rr++; g_last_rr = *$P1; return nondet_index();'),
    (r'^CdnsBlock__add_question_list$', '  if (g_exc) return 0;\n  g_cnt_ql++; return nondet_index();'),
    (r'^CdnsBlock__add_rr_list$', '  if (g_exc) return 0;\n  g_cnt_rl++; return nondet_index();'),
]
EXTRA = '''
unsigned int nondet_uint(void);
static inline unsigned int nondet_index(void) { return nondet_uint(); }
unsigned long g_cnt_ip, g_cnt_name, g_cnt_ct, g_cnt_sig, g_cnt_mmd, g_cnt_qlist, g_cnt_rrlist, g_cnt_q, g_cnt_rr, g_cnt_ql, g_cnt_rl;
struct QueryResponseSignature g_last_sig; struct MalformedMessageData g_last_mmd; struct Question g_last_q; struct RR g_last_rr;
#define TS_LE(a, b) ((a).m_secs < (b).m_secs || ((a).m_secs == (b).m_secs && (a).m_ticks <= (b).m_ticks))
#define FULL(b) ((b)->m_query_responses.n >= (b)->m_block_parameters.storage_parameters.max_block_items || \\
                 (b)->m_address_event_counts.n >= (b)->m_block_parameters.storage_parameters.max_block_items || \\
                 (b)->m_malformed_messages.n >= (b)->m_block_parameters.storage_parameters.max_block_items)
/* C17: no stored record is earlier than the block's earliest time (stated for the watched element of each array) */
#define EARLIEST_INV(b) (((b)->m_query_responses.wi >= (b)->m_query_responses.n || !(b)->m_query_responses.wv.time_offset.has || \\
                          TS_LE((b)->m_block_preamble.earliest_time, (b)->m_query_responses.wv.time_offset.val)) && \\
                         ((b)->m_malformed_messages.wi >= (b)->m_malformed_messages.n || !(b)->m_malformed_messages.wv.time_offset.has || \\
                          TS_LE((b)->m_block_preamble.earliest_time, (b)->m_malformed_messages.wv.time_offset.val)))
#define ELEMS_NONEMPTY(b) (((b)->m_query_responses.wi >= (b)->m_query_responses.n || QR_NONEMPTY(&(b)->m_query_responses.wv)) && \\
                           ((b)->m_malformed_messages.wi >= (b)->m_malformed_messages.n || MM_NONEMPTY(&(b)->m_malformed_messages.wv)))
'''
CNTS = 'g_cnt_ip, g_cnt_name, g_cnt_ct, g_cnt_sig, g_cnt_mmd, g_cnt_qlist, g_cnt_rrlist, g_cnt_q, g_cnt_rr, g_cnt_ql, g_cnt_rl, g_last_sig, g_last_mmd, g_last_q, g_last_rr'
QH = '$this->m_block_parameters.storage_parameters.storage_hints.query_response_hints'
SH = '$this->m_block_parameters.storage_parameters.storage_hints.query_response_signature_hints'
PQ = 'seq_QueryResponse__last'
S = 'g_last_sig'


def bit(h, i):
    return '((%s >> %d) & 1)' % (h, i)


# generic member -> (qr member, is the value copied verbatim?)
QR_SCALARS = {0: ('ts', 'time_offset', 'ts'), 2: ('client_port', 'client_port', 'v'), 3: ('transaction_id', 'transaction_id', 'v'),
              5: ('client_hoplimit', 'client_hoplimit', 'v'), 6: ('response_delay', 'response_delay', 'v'),
              8: ('query_size', 'query_size', 'v'), 9: ('response_size', 'response_size', 'v'),
              1: ('client_ip', 'client_address_index', 'idx'), 7: ('query_name', 'query_name_index', 'idx')}
SIG = {0: ('server_ip', 'server_address_index', 'idx'), 1: ('server_port', 'server_port', 'v'), 2: ('qr_transport_flags', 'qr_transport_flags', 'v'),
       3: ('qr_type', 'qr_type', 'v'), 4: ('qr_sig_flags', 'qr_sig_flags', 'v'), 5: ('query_opcode', 'query_opcode', 'v'),
       6: ('qr_dns_flags', 'qr_dns_flags', 'v'), 7: ('query_rcode', 'query_rcode', 'v'), 8: ('query_classtype', 'query_classtype_index', 'idx'),
       9: ('query_qdcount', 'query_qdcount', 'v'), 10: ('query_ancount', 'query_ancount', 'v'), 11: ('query_nscount', 'query_nscount', 'v'),
       12: ('query_arcount', 'query_arcount', 'v'), 13: ('query_edns_version', 'query_edns_version', 'v'), 14: ('query_udp_size', 'query_udp_size', 'v'),
       15: ('query_opt_rdata', 'query_opt_rdata_index', 'idx'), 16: ('response_rcode', 'response_rcode', 'v')}
for i, (g, f, k) in SIG.items():
    assert RFC.QR_SIG_HINTS[i] == f, (i, f)
for i, (g, f, k) in QR_SCALARS.items():
    assert RFC.QR_HINTS[i] == f, (i, f)
SECT = {11: [('query_questions', 'query_extended', 'question_index'), ('response_questions', 'response_extended', 'question_index')],
        12: [('query_answers', 'query_extended', 'answer_index')], 13: [('query_authority', 'query_extended', 'authority_index')],
        14: [('query_additional', 'query_extended', 'additional_index')], 15: [('response_answers', 'response_extended', 'answer_index')],
        16: [('response_authority', 'response_extended', 'authority_index')], 17: [('response_additional', 'response_extended', 'additional_index')]}


def val_eq(k, dst, src):
    if k == 'ts':
        return '(%s.m_secs == %s.m_secs && %s.m_ticks == %s.m_ticks)' % (dst, src, dst, src)
    return '(%s == %s)' % (dst, src)


def add_qr_contract():
    c = '''
__CPROVER_requires(__CPROVER_w_ok($this, sizeof(*$this)) && __CPROVER_r_ok($1, sizeof(*$1)) && __CPROVER_r_ok($2, sizeof(*$2)) && g_exc == 0)
__CPROVER_requires($this->m_query_responses.n < (1UL << 56) && $this->m_malformed_messages.n < (1UL << 56) && $this->m_address_event_counts.n < (1UL << 56))
__CPROVER_requires(EARLIEST_INV($this) && ELEMS_NONEMPTY($this))
__CPROVER_requires(g_cnt_ip == 0 && g_cnt_name == 0 && g_cnt_ct == 0 && g_cnt_sig == 0 && g_cnt_qlist == 0 && g_cnt_rrlist == 0 && seq_QueryResponse__pushes == 0)
__CPROVER_assigns($this->m_block_preamble.earliest_time, $this->m_block_statistics, $this->m_query_responses.n, $this->m_query_responses.wv, ''' + CNTS + ''', seq_QueryResponse__last, seq_QueryResponse__pushes, g_exc)
__CPROVER_ensures(g_exc == 0)
__CPROVER_ensures(EARLIEST_INV($this) && ELEMS_NONEMPTY($this))
__CPROVER_ensures($ret == FULL($this))
__CPROVER_ensures(seq_QueryResponse__pushes <= 1 && $this->m_query_responses.n == @N0 + seq_QueryResponse__pushes)
__CPROVER_ensures(seq_QueryResponse__pushes == 1 ==> QR_NONEMPTY(&''' + PQ + '''))
__CPROVER_ensures($2->has ==> $this->m_block_statistics.has)
'''
    # every generic field that is present and enabled must be stored (nothing dropped)
    stored_any = []
    for i, (g, f, k) in QR_SCALARS.items():
        en = bit(QH, i)
        c += '__CPROVER_ensures((seq_QueryResponse__pushes == 1 && !%s) ==> !%s.%s.has)\n' % (en, PQ, f)
        c += '__CPROVER_ensures((seq_QueryResponse__pushes == 1 && %s) ==> ((%s.%s.has != 0) == ($1->%s.has != 0)))\n' % (en, PQ, f, g)
        if k != 'idx':
            c += '__CPROVER_ensures((seq_QueryResponse__pushes == 1 && %s && $1->%s.has) ==> %s)\n' % (en, g, val_eq(k, '%s.%s.val' % (PQ, f), '$1->%s.val' % g))
        stored_any.append('(%s && $1->%s.has)' % (en, g))
    # signature
    sig_any = ' || '.join('(%s && $1->%s.has)' % (bit(SH, j), g) for j, (g, f, k) in SIG.items())
    c += '__CPROVER_ensures(g_cnt_sig == ((%s && (%s)) ? 1UL : 0UL))\n' % (bit(QH, 4), sig_any)
    c += '__CPROVER_ensures(seq_QueryResponse__pushes == 1 ==> ((%s.qr_signature_index.has != 0) == (g_cnt_sig == 1)))\n' % PQ
    for j, (g, f, k) in SIG.items():
        en = bit(SH, j)
        c += '__CPROVER_ensures((g_cnt_sig == 1 && !%s) ==> !%s.%s.has)\n' % (en, S, f)
        c += '__CPROVER_ensures((g_cnt_sig == 1 && %s) ==> ((%s.%s.has != 0) == ($1->%s.has != 0)))\n' % (en, S, f, g)
        if k != 'idx':
            c += '__CPROVER_ensures((g_cnt_sig == 1 && %s && $1->%s.has) ==> %s.%s.val == $1->%s.val)\n' % (en, g, S, f, g)
    stored_any.append('(%s && (%s))' % (bit(QH, 4), sig_any))
    # response processing data (bit 10)
    c += '__CPROVER_ensures((seq_QueryResponse__pushes == 1) ==> ((%s.response_processing_data.has != 0) == (%s && ($1->bailiwick.has || $1->processing_flags.has))))\n' % (PQ, bit(QH, 10))
    c += '__CPROVER_ensures((seq_QueryResponse__pushes == 1 && %s.response_processing_data.has) ==> ((%s.response_processing_data.val.bailiwick_index.has != 0) == ($1->bailiwick.has != 0) && (%s.response_processing_data.val.processing_flags.has != 0) == ($1->processing_flags.has != 0)))\n' % (PQ, PQ, PQ)
    stored_any.append('(%s && ($1->bailiwick.has || $1->processing_flags.has))' % bit(QH, 10))
    # sections
    for i, lst in SECT.items():
        for g, ext, f in lst:
            cond = '(%s && $1->%s.has && $1->%s.val.n > 0)' % (bit(QH, i), g, g)
            c += '__CPROVER_ensures(seq_QueryResponse__pushes == 1 ==> ((%s.%s.has && %s.%s.val.%s.has) == %s))\n' % (PQ, ext, PQ, ext, f, cond)
            stored_any.append(cond)
    for g in ('asn', 'country_code', 'round_trip_time'):
        c += '__CPROVER_ensures(seq_QueryResponse__pushes == 1 ==> ((%s.%s.has != 0) == ($1->%s.has != 0)))\n' % (PQ, g, g)
        stored_any.append('$1->%s.has' % g)
    c += '__CPROVER_ensures(seq_QueryResponse__pushes == ((%s) ? 1UL : 0UL))\n' % ' || '.join(stored_any)
    # table insertions: exactly one per enabled + present value that refers to a table (no unreachable entries)
    c += '__CPROVER_ensures(g_cnt_ip == (unsigned long)(%s && $1->client_ip.has) + (unsigned long)(%s && %s && $1->server_ip.has))\n' % (bit(QH, 1), bit(QH, 4), bit(SH, 0))
    c += '__CPROVER_ensures(g_cnt_name == (unsigned long)(%s && $1->query_name.has) + (unsigned long)(%s && %s && $1->query_opt_rdata.has) + (unsigned long)(%s && $1->bailiwick.has))\n' % (bit(QH, 7), bit(QH, 4), bit(SH, 15), bit(QH, 10))
    c += '__CPROVER_ensures(g_cnt_ct == (unsigned long)(%s && %s && $1->query_classtype.has))\n' % (bit(QH, 4), bit(SH, 8))
    sec = lambda i, g: '(unsigned long)(%s && $1->%s.has && $1->%s.val.n > 0)' % (bit(QH, i), g, g)
    c += '__CPROVER_ensures(g_cnt_qlist == %s + %s)\n' % (sec(11, 'query_questions'), sec(11, 'response_questions'))
    c += '__CPROVER_ensures(g_cnt_rrlist == %s)\n' % ' + '.join(sec(i, g) for i in range(12, 18) for g, _, _ in SECT[i])
    return c


GH_N = [('unsigned long', 'N0', '$this->m_query_responses.n')]
ADD_SETUP = '''  static struct CdnsBlock obj;
  __CPROVER_assume(obj.m_query_responses.n < (1UL << 56) && obj.m_malformed_messages.n < (1UL << 56) && obj.m_address_event_counts.n < (1UL << 56));
  __CPROVER_assume(EARLIEST_INV(&obj) && ELEMS_NONEMPTY(&obj));
  g_cnt_ip = 0; g_cnt_name = 0; g_cnt_ct = 0; g_cnt_sig = 0; g_cnt_mmd = 0; g_cnt_qlist = 0; g_cnt_rrlist = 0; g_cnt_q = 0; g_cnt_rr = 0; g_cnt_ql = 0; g_cnt_rl = 0;
  seq_QueryResponse__pushes = 0; seq_MalformedMessage__pushes = 0;
'''
AUTO = [r'[A-Za-z]+__ctor__\w+', r'[A-Za-z]+__default', r'Timestamp__op_lt', r'CdnsBlock__full']
UNITS = [Unit('add.qr_generic', (BLK + 'add_question_response_record', 'bool (const CDNS::GenericQueryResponse &, const boost::optional<BlockStatistics> &)'),
              contract=add_qr_contract(), prelude=P, pre_c=PRE_C, defines=['CAPTURE_PUSH'], extra_c=EXTRA, gen_stubs=TABLE_STUBS, ghost=GH_N,
              auto_inline=AUTO, stubs=['seq_[A-Za-z0-9_]+__(push_back|size)', 'umap_[A-Za-z0-9_]+__size', 'opt_[A-Za-z0-9_]+__value'],
              setup=ADD_SETUP + '  static struct GenericQueryResponse gr; static struct opt_BlockStatistics st;\n', args=['&obj', '&gr', '&st'],
              props=['C04', 'C12', 'C17', 'C01', 'C02'], timeout=1800, split=True,
              note='all 2^18 x 2^17 hint masks and all presence patterns symbolically: a member is stored iff its hint bit is set and the value is '
                   'present, stored values equal the supplied ones, exactly one table insertion per stored reference, the record is pushed iff '
                   'non-empty, the array grows by at most one, the result is full(), the earliest-time invariant is preserved')]

TRUSTED_BASE = ['A7 table insertion wrappers add_ip_address/... return an index and add at most one entry (their implementation: bt.* units)',
                'A4/A5/A6 as in the item layer; std::vector::push_back appends a copy (captured as ghost "last pushed value")',
                'storage hint bit assignment from RFC 8618 section 7.3.1.1.1 (spec/rfc8618_maps.py)', 'cdns2c lowering; CBMC 6.11 dfcc; cadical']
ASSUMPTIONS = ['array sizes < 2^56']

# ---------------------------------------------------------------- address event counts
OH = '$this->m_block_parameters.storage_parameters.storage_hints.other_data_hints'
EXTRA2 = EXTRA + '''
static inline _Bool opt_Timestamp__lt_val(struct opt_Timestamp *a, struct Timestamp *b) { return !a->has || Timestamp__op_lt(&a->val, b); }
'''
GH_A = [('unsigned long', 'NA0', '$this->m_address_event_counts.n'), ('_Bool', 'PR0', 'umap_present'),
        ('unsigned long', 'NQ0', '$this->m_query_responses.n'), ('unsigned long', 'NM0', '$this->m_malformed_messages.n'),
        ('unsigned long', 'ES0', '$this->m_block_preamble.earliest_time.m_secs'), ('unsigned long', 'ET0', '$this->m_block_preamble.earliest_time.m_ticks')]
AEC_COMMON = '''
__CPROVER_requires(__CPROVER_w_ok($this, sizeof(*$this)) && __CPROVER_r_ok($1, sizeof(*$1)) && __CPROVER_r_ok($2, sizeof(*$2)) && g_exc == 0)
__CPROVER_requires($this->m_query_responses.n < (1UL << 56) && $this->m_malformed_messages.n < (1UL << 56) && $this->m_address_event_counts.n < (1UL << 56))
__CPROVER_requires(g_cnt_ip == 0)
__CPROVER_assigns($this->m_block_statistics, $this->m_address_event_counts.n, umap_AddressEventCount_u64__cur, umap_present, ''' + CNTS + ''', g_exc)
__CPROVER_ensures(g_exc == 0)
__CPROVER_ensures(!''' + bit(OH, 1) + ''' ==> ($ret == 0 && $this->m_address_event_counts.n == @NA0 && g_cnt_ip == 0))
__CPROVER_ensures(''' + bit(OH, 1) + ''' ==> ($ret == FULL($this) && $this->m_address_event_counts.n == @NA0 + (@PR0 ? 0UL : 1UL) && umap_present))
__CPROVER_ensures((''' + bit(OH, 1) + ''' && $2->has) ==> $this->m_block_statistics.has)
__CPROVER_ensures($this->m_query_responses.n == @NQ0 && $this->m_malformed_messages.n == @NM0)
'''
AEC_GEN = AEC_COMMON + '''
__CPROVER_ensures(''' + bit(OH, 1) + ''' ==> (g_cnt_ip == 1 && umap_AddressEventCount_u64__cur.first.ae_type == $1->ae_type))
__CPROVER_ensures(''' + bit(OH, 1) + ''' ==> ((umap_AddressEventCount_u64__cur.first.ae_code.has != 0) == ($1->ae_code.has != 0) && (umap_AddressEventCount_u64__cur.first.ae_transport_flags.has != 0) == ($1->ae_transport_flags.has != 0)))
__CPROVER_ensures((''' + bit(OH, 1) + ''' && !@PR0) ==> umap_AddressEventCount_u64__cur.second == 1)
'''
AEC_DIR = AEC_COMMON + '''
__CPROVER_ensures(g_cnt_ip == 0)
__CPROVER_ensures(''' + bit(OH, 1) + ''' ==> (umap_AddressEventCount_u64__cur.first.ae_type == $1->ae_type && umap_AddressEventCount_u64__cur.first.ae_address_index == $1->ae_address_index))
__CPROVER_ensures((''' + bit(OH, 1) + ''' && !@PR0) ==> umap_AddressEventCount_u64__cur.second == 1)
'''
ASTUBS = ['seq_[A-Za-z0-9_]+__(push_back|size)', 'umap_[A-Za-z0-9_]+__(size|find|index)', 'opt_[A-Za-z0-9_]+__value', 'opt_Timestamp__lt_val']
for uid, sig, con, rec in [('add.aec_generic', 'bool (const CDNS::GenericAddressEventCount &, const boost::optional<BlockStatistics> &)', AEC_GEN, 'GenericAddressEventCount'),
                           ('add.aec', 'bool (const CDNS::AddressEventCount &, const boost::optional<BlockStatistics> &)', AEC_DIR, 'AddressEventCount')]:
    UNITS.append(Unit(uid, (BLK + 'add_address_event_count', sig), contract=con, prelude=P, pre_c=PRE_C, defines=['CAPTURE_PUSH'], extra_c=EXTRA2,
                      gen_stubs=TABLE_STUBS, ghost=GH_A, auto_inline=AUTO, stubs=ASTUBS,
                      setup=ADD_SETUP + '  static struct %s rec; static struct opt_BlockStatistics st;\n' % rec, args=['&obj', '&rec', '&st'],
                      props=['C04', 'C12', 'C01'], timeout=900,
                      note='stored only when the address-event hint bit is set (otherwise nothing changes); a repeated key leaves the number of '
                           'entries unchanged and increments its count, a new key adds one entry with count 1; result is full()'))

# ---------------------------------------------------------------- malformed messages
PM = 'seq_MalformedMessage__last'
MMD = 'g_last_mmd'
MM_GEN = '''
__CPROVER_requires(__CPROVER_w_ok($this, sizeof(*$this)) && __CPROVER_r_ok($1, sizeof(*$1)) && __CPROVER_r_ok($2, sizeof(*$2)) && g_exc == 0)
__CPROVER_requires($this->m_query_responses.n < (1UL << 56) && $this->m_malformed_messages.n < (1UL << 56) && $this->m_address_event_counts.n < (1UL << 56))
__CPROVER_requires(EARLIEST_INV($this) && ELEMS_NONEMPTY($this))
__CPROVER_requires(g_cnt_ip == 0 && g_cnt_mmd == 0 && seq_MalformedMessage__pushes == 0)
__CPROVER_assigns($this->m_block_preamble.earliest_time, $this->m_block_statistics, $this->m_malformed_messages.n, $this->m_malformed_messages.wv, ''' + CNTS + ''', seq_MalformedMessage__last, seq_MalformedMessage__pushes, g_exc)
__CPROVER_ensures(g_exc == 0)
__CPROVER_ensures(EARLIEST_INV($this) && ELEMS_NONEMPTY($this))
__CPROVER_ensures(!''' + bit(OH, 0) + ''' ==> ($ret == 0 && seq_MalformedMessage__pushes == 0 && g_cnt_ip == 0 && g_cnt_mmd == 0 && $this->m_block_preamble.earliest_time.m_secs == @ES0 && $this->m_block_preamble.earliest_time.m_ticks == @ET0))
__CPROVER_ensures(''' + bit(OH, 0) + ''' ==> $ret == FULL($this))
__CPROVER_ensures(seq_MalformedMessage__pushes <= 1 && $this->m_malformed_messages.n == @NM0 + seq_MalformedMessage__pushes && $this->m_query_responses.n == @NQ0 && $this->m_address_event_counts.n == @NA0)
__CPROVER_ensures(''' + bit(OH, 0) + ''' ==> seq_MalformedMessage__pushes == (($1->ts.has || $1->client_ip.has || $1->client_port.has || $1->server_ip.has || $1->server_port.has || $1->mm_transport_flags.has || $1->mm_payload.has) ? 1UL : 0UL))
__CPROVER_ensures(seq_MalformedMessage__pushes == 1 ==> (MM_NONEMPTY(&''' + PM + ''') && (''' + PM + '''.time_offset.has != 0) == ($1->ts.has != 0) && (''' + PM + '''.client_address_index.has != 0) == ($1->client_ip.has != 0) && (''' + PM + '''.client_port.has != 0) == ($1->client_port.has != 0)))
__CPROVER_ensures((seq_MalformedMessage__pushes == 1 && $1->ts.has) ==> (''' + PM + '''.time_offset.val.m_secs == $1->ts.val.m_secs && ''' + PM + '''.time_offset.val.m_ticks == $1->ts.val.m_ticks))
__CPROVER_ensures((seq_MalformedMessage__pushes == 1 && $1->client_port.has) ==> ''' + PM + '''.client_port.val == $1->client_port.val)
__CPROVER_ensures(''' + bit(OH, 0) + ''' ==> g_cnt_mmd == (($1->server_ip.has || $1->server_port.has || $1->mm_transport_flags.has || $1->mm_payload.has) ? 1UL : 0UL))
__CPROVER_ensures(seq_MalformedMessage__pushes == 1 ==> (''' + PM + '''.message_data_index.has != 0) == (g_cnt_mmd == 1))
__CPROVER_ensures(g_cnt_mmd == 1 ==> ((''' + MMD + '''.server_address_index.has != 0) == ($1->server_ip.has != 0) && (''' + MMD + '''.server_port.has != 0) == ($1->server_port.has != 0) && (''' + MMD + '''.mm_transport_flags.has != 0) == ($1->mm_transport_flags.has != 0) && (''' + MMD + '''.mm_payload.has != 0) == ($1->mm_payload.has != 0)))
__CPROVER_ensures((g_cnt_mmd == 1 && $1->mm_payload.has) ==> ''' + MMD + '''.mm_payload.val.id == $1->mm_payload.val.id)
__CPROVER_ensures((g_cnt_mmd == 1 && $1->server_port.has) ==> ''' + MMD + '''.server_port.val == $1->server_port.val)
__CPROVER_ensures(''' + bit(OH, 0) + ''' ==> g_cnt_ip == (unsigned long)($1->client_ip.has != 0) + (unsigned long)($1->server_ip.has != 0))
__CPROVER_ensures((''' + bit(OH, 0) + ''' && $2->has) ==> $this->m_block_statistics.has)
'''
UNITS.append(Unit('add.mm_generic', (BLK + 'add_malformed_message', 'bool (const CDNS::GenericMalformedMessage &, const boost::optional<BlockStatistics> &)'),
                  contract=MM_GEN, prelude=P, pre_c=PRE_C, defines=['CAPTURE_PUSH'], extra_c=EXTRA2, gen_stubs=TABLE_STUBS, ghost=GH_A,
                  auto_inline=AUTO, stubs=ASTUBS, setup=ADD_SETUP + '  static struct GenericMalformedMessage rec; static struct opt_BlockStatistics st;\n',
                  args=['&obj', '&rec', '&st'], props=['C04', 'C12', 'C17', 'C01', 'C02'], timeout=900,
                  note='stored only when the malformed-message hint bit is set (otherwise nothing changes, not even the earliest time); all supplied '
                       'members stored, message data added to its table iff any of its members is present; earliest-time invariant preserved'))

# direct (already indexed) records
DIRECT = '''
__CPROVER_requires(__CPROVER_w_ok($this, sizeof(*$this)) && __CPROVER_r_ok($1, sizeof(*$1)) && __CPROVER_r_ok($2, sizeof(*$2)) && g_exc == 0)
__CPROVER_requires($this->m_query_responses.n < (1UL << 56) && $this->m_malformed_messages.n < (1UL << 56) && $this->m_address_event_counts.n < (1UL << 56))
__CPROVER_requires(EARLIEST_INV($this) && ELEMS_NONEMPTY($this))
__CPROVER_requires(%(P)s__pushes == 0)
__CPROVER_assigns($this->m_block_preamble.earliest_time, $this->m_block_statistics, $this->%(arr)s.n, $this->%(arr)s.wv, %(P)s__last, %(P)s__pushes, g_exc)
__CPROVER_ensures(g_exc == 0)
__CPROVER_ensures(EARLIEST_INV($this) && ELEMS_NONEMPTY($this))
__CPROVER_ensures($ret == FULL($this))
__CPROVER_ensures(%(P)s__pushes == (%(NE)s($1) ? 1UL : 0UL) && $this->%(arr)s.n == @%(N)s + %(P)s__pushes)
__CPROVER_ensures((%(P)s__pushes == 1) ==> ((%(P)s__last.time_offset.has != 0) == ($1->time_offset.has != 0) && (%(P)s__last.client_port.has != 0) == ($1->client_port.has != 0)))
__CPROVER_ensures((%(P)s__pushes == 1 && $1->time_offset.has) ==> (%(P)s__last.time_offset.val.m_secs == $1->time_offset.val.m_secs && %(P)s__last.time_offset.val.m_ticks == $1->time_offset.val.m_ticks))
'''
for uid, fn, sig, rec, d in [
        ('add.qr', 'add_question_response_record', 'bool (const CDNS::QueryResponse &, const boost::optional<BlockStatistics> &)', 'QueryResponse',
         {'P': 'seq_QueryResponse', 'arr': 'm_query_responses', 'NE': 'QR_NONEMPTY', 'N': 'NQ0'}),
        ('add.mm', 'add_malformed_message', 'bool (const CDNS::MalformedMessage &, const boost::optional<BlockStatistics> &)', 'MalformedMessage',
         {'P': 'seq_MalformedMessage', 'arr': 'm_malformed_messages', 'NE': 'MM_NONEMPTY', 'N': 'NM0'})]:
    UNITS.append(Unit(uid, (BLK + fn, sig), contract=DIRECT % d, prelude=P, pre_c=PRE_C, defines=['CAPTURE_PUSH'], extra_c=EXTRA2, gen_stubs=TABLE_STUBS,
                      ghost=GH_A, auto_inline=AUTO, stubs=ASTUBS, inline=[('Timestamp::operator<', None)], setup=ADD_SETUP + '  static struct %s rec; static struct opt_BlockStatistics st;\n' % rec,
                      args=['&obj', '&rec', '&st'], props=['C12', 'C17', 'C02'], timeout=900,
                      note='a directly built record is stored unchanged iff it has at least one member; earliest-time invariant preserved'))

# ---------------------------------------------------------------- generic question / RR lists (loops)
RRH = '$P0->m_block_parameters.storage_parameters.storage_hints.rr_hints'
LIST_STUBS = [s for s in TABLE_STUBS if 'add_rr$' not in s[0]] + [
    (r'^CdnsBlock__add_rr$', '  if (g_exc) return 0;\n'
     '  __CPROVER_assert((' + RRH + ' & 1) || !$P1->ttl.has, "C04: RR stored without a ttl when the ttl hint is off");\n'
     '  __CPROVER_assert((' + RRH + ' & 2) || !$P1->rdata_index.has, "C04: RR stored without rdata when the rdata hint is off");\n'
     '  g_exp_names += 1UL + ($P1->rdata_index.has ? 1UL : 0UL);\n'
     '  __CPROVER_assert(g_cnt_name == g_exp_names, "C04: exactly one name/rdata table insertion per reference stored in the RR (name, and rdata iff its index is stored)");\n'
     '  g_cnt_rr++; g_last_rr = *$P1; return nondet_index();')]
LIST_C = '''
__CPROVER_requires(__CPROVER_w_ok($this, sizeof(*$this)) && __CPROVER_r_ok($1, sizeof(*$1)) && g_exc == 0 && $1->n < (1UL << 56))
__CPROVER_requires(g_cnt_name == 0 && g_cnt_ct == 0 && g_cnt_%(e)s == 0 && g_cnt_%(l)s == 0 && seq_u32__pushes == 0 && g_exp_names == 0)
__CPROVER_assigns(''' + CNTS + ''', g_exp_names, seq_u32__last, seq_u32__pushes, seq_GenericResourceRecord__cur, g_exc)
__CPROVER_ensures(g_exc == 0)
__CPROVER_ensures(g_cnt_%(e)s == $1->n && g_cnt_ct == $1->n && seq_u32__pushes == $1->n && g_cnt_%(l)s == 1 && g_cnt_name >= $1->n && g_cnt_name <= 2 * $1->n && %(names)s)
'''
LIST_LOOP = '''
  __CPROVER_assigns($L2, $L1, ''' + CNTS + ''', g_exp_names, seq_u32__last, seq_u32__pushes, seq_GenericResourceRecord__cur, g_exc)
  __CPROVER_loop_invariant($L2 <= $1->n && g_exc == 0 && g_cnt_%(e)s == $L2 && g_cnt_ct == $L2 && seq_u32__pushes == $L2 && $L1.n == $L2 && g_cnt_%(l)s == 0 && g_cnt_name >= $L2 && g_cnt_name <= 2 * $L2 && %(lnames)s)
  __CPROVER_decreases($1->n - $L2)
'''
for nm, e, l, skipnames in [('add_generic_qlist', 'q', 'ql', 0), ('add_generic_rrlist', 'rr', 'rl', 1)]:
    d = {'e': e, 'l': l, 'names': 'g_cnt_name == $1->n' if nm == 'add_generic_qlist' else 'g_cnt_name == g_exp_names',
         'lnames': 'g_cnt_name == $L2' if nm == 'add_generic_qlist' else 'g_cnt_name == g_exp_names'}
    # locals: qlist: $L1 = list, $L2 = counter ; rrlist: $L1 = rr_hints (reference), $L2 = list, $L3 = counter
    loop = LIST_LOOP % d
    if nm == 'add_generic_rrlist':
        loop = loop.replace('$L2', '$L9').replace('$L1', '$L2').replace('$L9', '$L3')
    UNITS.append(Unit('add.' + nm[4:], (BLK + nm, None), contract=LIST_C % d, loops={1: loop}, prelude=P, pre_c=PRE_C, defines=['CAPTURE_PUSH'],
                      extra_c=EXTRA2 + 'unsigned long g_exp_names;\n', gen_stubs=LIST_STUBS, auto_inline=AUTO, stubs=ASTUBS + ['seq_[A-Za-z0-9_]+__(at|empty)'],
                      setup=ADD_SETUP + '  static struct seq_GenericResourceRecord lst;\n  __CPROVER_assume(lst.n < (1UL << 56));\n  seq_u32__pushes = 0; g_exp_names = 0;\n',
                      args=['&obj', '&lst'], props=['C04', 'C01', 'C11'], timeout=900,
                      note='one table entry per resource record, in order, any list length; RR members gated by the RR hints (asserted at every add_rr call)'))
