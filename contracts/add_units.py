"""Record -> block conversion (C04 hints, C12 growth/full, C17 earliest-time invariant, C11/C02 index closure by counting)."""
import sys, os
sys.path.insert(0, os.path.join(os.path.dirname(os.path.abspath(__file__)), '..', 'spec'))
from driver import Unit
import rfc8618_maps as RFC
from block_units import PRE_C, TABLES, QR_ANY, MM_ANY

P = 'item_add.h'
BLK = 'CdnsBlock::'
# table insertion wrappers of block.h seen through their contract (A7): return an index, may grow the table by one; counted per table
TABLE_STUBS = [
    (r'^CdnsBlock__add_ip_address$', '  if (g_exc) return 0;\n  g_cnt_ip++; return nondet_index();'),
    (r'^CdnsBlock__add_name_rdata$', '  if (g_exc) return 0;\n  g_cnt_name++; return nondet_index();'),
    (r'^CdnsBlock__add_classtype$', '  if (g_exc) return 0;\n  g_cnt_ct++; return nondet_index();'),
    (r'^CdnsBlock__add_qr_signature$', '  if (g_exc) return 0;\n  g_cnt_sig++; g_last_sig = *$P1; return nondet_index();'),
    (r'^CdnsBlock__add_malformed_message_data$', '  if (g_exc) return 0;\n  g_cnt_mmd++; g_last_mmd = *$P1; return nondet_index();'),
    (r'^CdnsBlock__add_generic_qlist$', '  if (g_exc) return 0;\n  g_cnt_qlist++; return nondet_index();'),
    (r'^CdnsBlock__add_generic_rrlist$', '  if (g_exc) return 0;\n  g_cnt_rrlist++; return nondet_index();'),
    (r'^CdnsBlock__add_question$', '  if (g_exc) return 0;\n  g_cnt_q++; g_last_q = *$P1; return nondet_index();'),
    (r'^CdnsBlock__add_rr$', '  if (g_exc) return 0;\n  g_cnt_rr++; g_last_rr = *$P1; return nondet_index();'),
    (r'^CdnsBlock__add_question_list$', '  if (g_exc) return 0;\n  g_cnt_ql++; return nondet_index();'),
    (r'^CdnsBlock__add_rr_list$', '  if (g_exc) return 0;\n  g_cnt_rl++; return nondet_index();'),
]
EXTRA = '''
unsigned int nondet_uint(void);
static inline unsigned int nondet_index(void) { return nondet_uint(); }
unsigned long g_cnt_ip, g_cnt_name, g_cnt_ct, g_cnt_sig, g_cnt_mmd, g_cnt_qlist, g_cnt_rrlist, g_cnt_q, g_cnt_rr, g_cnt_ql, g_cnt_rl;
struct QueryResponseSignature g_last_sig; struct MalformedMessageData g_last_mmd; struct Question g_last_q; struct RR g_last_rr;
#define TS_LE(a, b) ((a).m_secs < (b).m_secs || ((a).m_secs == (b).m_secs && (a).m_ticks <= (b).m_ticks))
#define FULL(b) ((b)->m_query_responses.n >= (b)->m_block_parameters.storage_parameters.max_block_items || \\
                 (b)->m_address_event_counts.n >= (b)->m_block_parameters.storage_parameters.max_block_items || \\
                 (b)->m_malformed_messages.n >= (b)->m_block_parameters.storage_parameters.max_block_items)
/* C17: no stored record is earlier than the block's earliest time (stated for the watched element of each array) */
#define EARLIEST_INV(b) (((b)->m_query_responses.wi >= (b)->m_query_responses.n || !(b)->m_query_responses.wv.time_offset.has || \\
                          TS_LE((b)->m_block_preamble.earliest_time, (b)->m_query_responses.wv.time_offset.val)) && \\
                         ((b)->m_malformed_messages.wi >= (b)->m_malformed_messages.n || !(b)->m_malformed_messages.wv.time_offset.has || \\
                          TS_LE((b)->m_block_preamble.earliest_time, (b)->m_malformed_messages.wv.time_offset.val)))
#define ELEMS_NONEMPTY(b) (((b)->m_query_responses.wi >= (b)->m_query_responses.n || QR_NONEMPTY(&(b)->m_query_responses.wv)) && \\
                           ((b)->m_malformed_messages.wi >= (b)->m_malformed_messages.n || MM_NONEMPTY(&(b)->m_malformed_messages.wv)))
'''
CNTS = 'g_cnt_ip, g_cnt_name, g_cnt_ct, g_cnt_sig, g_cnt_mmd, g_cnt_qlist, g_cnt_rrlist, g_cnt_q, g_cnt_rr, g_cnt_ql, g_cnt_rl, g_last_sig, g_last_mmd, g_last_q, g_last_rr'
QH = '$this->m_block_parameters.storage_parameters.storage_hints.query_response_hints'
SH = '$this->m_block_parameters.storage_parameters.storage_hints.query_response_signature_hints'
PQ = 'seq_QueryResponse__last'
S = 'g_last_sig'


def bit(h, i):
    return '((%s >> %d) & 1)' % (h, i)


# generic member -> (qr member, is the value copied verbatim?)
QR_SCALARS = {0: ('ts', 'time_offset', 'ts'), 2: ('client_port', 'client_port', 'v'), 3: ('transaction_id', 'transaction_id', 'v'),
              5: ('client_hoplimit', 'client_hoplimit', 'v'), 6: ('response_delay', 'response_delay', 'v'),
              8: ('query_size', 'query_size', 'v'), 9: ('response_size', 'response_size', 'v'),
              1: ('client_ip', 'client_address_index', 'idx'), 7: ('query_name', 'query_name_index', 'idx')}
SIG = {0: ('server_ip', 'server_address_index', 'idx'), 1: ('server_port', 'server_port', 'v'), 2: ('qr_transport_flags', 'qr_transport_flags', 'v'),
       3: ('qr_type', 'qr_type', 'v'), 4: ('qr_sig_flags', 'qr_sig_flags', 'v'), 5: ('query_opcode', 'query_opcode', 'v'),
       6: ('qr_dns_flags', 'qr_dns_flags', 'v'), 7: ('query_rcode', 'query_rcode', 'v'), 8: ('query_classtype', 'query_classtype_index', 'idx'),
       9: ('query_qdcount', 'query_qdcount', 'v'), 10: ('query_ancount', 'query_ancount', 'v'), 11: ('query_nscount', 'query_nscount', 'v'),
       12: ('query_arcount', 'query_arcount', 'v'), 13: ('query_edns_version', 'query_edns_version', 'v'), 14: ('query_udp_size', 'query_udp_size', 'v'),
       15: ('query_opt_rdata', 'query_opt_rdata_index', 'idx'), 16: ('response_rcode', 'response_rcode', 'v')}
for i, (g, f, k) in SIG.items():
    assert RFC.QR_SIG_HINTS[i] == f, (i, f)
for i, (g, f, k) in QR_SCALARS.items():
    assert RFC.QR_HINTS[i] == f, (i, f)
SECT = {11: [('query_questions', 'query_extended', 'question_index'), ('response_questions', 'response_extended', 'question_index')],
        12: [('query_answers', 'query_extended', 'answer_index')], 13: [('query_authority', 'query_extended', 'authority_index')],
        14: [('query_additional', 'query_extended', 'additional_index')], 15: [('response_answers', 'response_extended', 'answer_index')],
        16: [('response_authority', 'response_extended', 'authority_index')], 17: [('response_additional', 'response_extended', 'additional_index')]}


def val_eq(k, dst, src):
    if k == 'ts':
        return '(%s.m_secs == %s.m_secs && %s.m_ticks == %s.m_ticks)' % (dst, src, dst, src)
    return '(%s == %s)' % (dst, src)


def add_qr_contract():
    c = '''
__CPROVER_requires(__CPROVER_w_ok($this, sizeof(*$this)) && __CPROVER_r_ok($1, sizeof(*$1)) && __CPROVER_r_ok($2, sizeof(*$2)) && g_exc == 0)
__CPROVER_requires($this->m_query_responses.n < (1UL << 56) && $this->m_malformed_messages.n < (1UL << 56) && $this->m_address_event_counts.n < (1UL << 56))
__CPROVER_requires(EARLIEST_INV($this) && ELEMS_NONEMPTY($this))
__CPROVER_requires(g_cnt_ip == 0 && g_cnt_name == 0 && g_cnt_ct == 0 && g_cnt_sig == 0 && g_cnt_qlist == 0 && g_cnt_rrlist == 0 && seq_QueryResponse__pushes == 0)
__CPROVER_assigns($this->m_block_preamble.earliest_time, $this->m_block_statistics, $this->m_query_responses.n, $this->m_query_responses.wv, ''' + CNTS + ''', seq_QueryResponse__last, seq_QueryResponse__pushes, g_exc)
__CPROVER_ensures(g_exc == 0)
__CPROVER_ensures(EARLIEST_INV($this) && ELEMS_NONEMPTY($this))
__CPROVER_ensures($ret == FULL($this))
__CPROVER_ensures(seq_QueryResponse__pushes <= 1 && $this->m_query_responses.n == @N0 + seq_QueryResponse__pushes)
__CPROVER_ensures(seq_QueryResponse__pushes == 1 ==> QR_NONEMPTY(&''' + PQ + '''))
__CPROVER_ensures($2->has ==> $this->m_block_statistics.has)
'''
    # every generic field that is present and enabled must be stored (nothing dropped)
    stored_any = []
    for i, (g, f, k) in QR_SCALARS.items():
        en = bit(QH, i)
        c += '__CPROVER_ensures((seq_QueryResponse__pushes == 1 && !%s) ==> !%s.%s.has)\n' % (en, PQ, f)
        c += '__CPROVER_ensures((seq_QueryResponse__pushes == 1 && %s) ==> ((%s.%s.has != 0) == ($1->%s.has != 0)))\n' % (en, PQ, f, g)
        if k != 'idx':
            c += '__CPROVER_ensures((seq_QueryResponse__pushes == 1 && %s && $1->%s.has) ==> %s)\n' % (en, g, val_eq(k, '%s.%s.val' % (PQ, f), '$1->%s.val' % g))
        stored_any.append('(%s && $1->%s.has)' % (en, g))
    # signature
    sig_any = ' || '.join('(%s && $1->%s.has)' % (bit(SH, j), g) for j, (g, f, k) in SIG.items())
    c += '__CPROVER_ensures(g_cnt_sig == ((%s && (%s)) ? 1UL : 0UL))\n' % (bit(QH, 4), sig_any)
    c += '__CPROVER_ensures(seq_QueryResponse__pushes == 1 ==> ((%s.qr_signature_index.has != 0) == (g_cnt_sig == 1)))\n' % PQ
    for j, (g, f, k) in SIG.items():
        en = bit(SH, j)
        c += '__CPROVER_ensures((g_cnt_sig == 1 && !%s) ==> !%s.%s.has)\n' % (en, S, f)
        c += '__CPROVER_ensures((g_cnt_sig == 1 && %s) ==> ((%s.%s.has != 0) == ($1->%s.has != 0)))\n' % (en, S, f, g)
        if k != 'idx':
            c += '__CPROVER_ensures((g_cnt_sig == 1 && %s && $1->%s.has) ==> %s.%s.val == $1->%s.val)\n' % (en, g, S, f, g)
    stored_any.append('(%s && (%s))' % (bit(QH, 4), sig_any))
    # response processing data (bit 10)
    c += '__CPROVER_ensures((seq_QueryResponse__pushes == 1) ==> ((%s.response_processing_data.has != 0) == (%s && ($1->bailiwick.has || $1->processing_flags.has))))\n' % (PQ, bit(QH, 10))
    c += '__CPROVER_ensures((seq_QueryResponse__pushes == 1 && %s.response_processing_data.has) ==> ((%s.response_processing_data.val.bailiwick_index.has != 0) == ($1->bailiwick.has != 0) && (%s.response_processing_data.val.processing_flags.has != 0) == ($1->processing_flags.has != 0)))\n' % (PQ, PQ, PQ)
    stored_any.append('(%s && ($1->bailiwick.has || $1->processing_flags.has))' % bit(QH, 10))
    # sections
    for i, lst in SECT.items():
        for g, ext, f in lst:
            cond = '(%s && $1->%s.has && $1->%s.val.n > 0)' % (bit(QH, i), g, g)
            c += '__CPROVER_ensures(seq_QueryResponse__pushes == 1 ==> ((%s.%s.has && %s.%s.val.%s.has) == %s))\n' % (PQ, ext, PQ, ext, f, cond)
            stored_any.append(cond)
    for g in ('asn', 'country_code', 'round_trip_time'):
        c += '__CPROVER_ensures(seq_QueryResponse__pushes == 1 ==> ((%s.%s.has != 0) == ($1->%s.has != 0)))\n' % (PQ, g, g)
        stored_any.append('$1->%s.has' % g)
    c += '__CPROVER_ensures(seq_QueryResponse__pushes == ((%s) ? 1UL : 0UL))\n' % ' || '.join(stored_any)
    # table insertions: exactly one per enabled + present value that refers to a table (no unreachable entries)
    c += '__CPROVER_ensures(g_cnt_ip == (unsigned long)(%s && $1->client_ip.has) + (unsigned long)(%s && %s && $1->server_ip.has))\n' % (bit(QH, 1), bit(QH, 4), bit(SH, 0))
    c += '__CPROVER_ensures(g_cnt_name == (unsigned long)(%s && $1->query_name.has) + (unsigned long)(%s && %s && $1->query_opt_rdata.has) + (unsigned long)(%s && $1->bailiwick.has))\n' % (bit(QH, 7), bit(QH, 4), bit(SH, 15), bit(QH, 10))
    c += '__CPROVER_ensures(g_cnt_ct == (unsigned long)(%s && %s && $1->query_classtype.has))\n' % (bit(QH, 4), bit(SH, 8))
    sec = lambda i, g: '(unsigned long)(%s && $1->%s.has && $1->%s.val.n > 0)' % (bit(QH, i), g, g)
    c += '__CPROVER_ensures(g_cnt_qlist == %s + %s)\n' % (sec(11, 'query_questions'), sec(11, 'response_questions'))
    c += '__CPROVER_ensures(g_cnt_rrlist == %s)\n' % ' + '.join(sec(i, g) for i in range(12, 18) for g, _, _ in SECT[i])
    return c


GH_N = [('unsigned long', 'N0', '$this->m_query_responses.n')]
ADD_SETUP = '''  static struct CdnsBlock obj;
  __CPROVER_assume(obj.m_query_responses.n < (1UL << 56) && obj.m_malformed_messages.n < (1UL << 56) && obj.m_address_event_counts.n < (1UL << 56));
  __CPROVER_assume(EARLIEST_INV(&obj) && ELEMS_NONEMPTY(&obj));
  g_cnt_ip = 0; g_cnt_name = 0; g_cnt_ct = 0; g_cnt_sig = 0; g_cnt_mmd = 0; g_cnt_qlist = 0; g_cnt_rrlist = 0; g_cnt_q = 0; g_cnt_rr = 0; g_cnt_ql = 0; g_cnt_rl = 0;
  seq_QueryResponse__pushes = 0; seq_MalformedMessage__pushes = 0;
'''
AUTO = [r'[A-Za-z]+__ctor__\w+', r'[A-Za-z]+__default', r'Timestamp__op_lt', r'CdnsBlock__full']
UNITS = [Unit('add.qr_generic', (BLK + 'add_question_response_record', 'bool (const CDNS::GenericQueryResponse &, const boost::optional<BlockStatistics> &)'),
              contract=add_qr_contract(), prelude=P, pre_c=PRE_C, defines=['CAPTURE_PUSH'], extra_c=EXTRA, gen_stubs=TABLE_STUBS, ghost=GH_N,
              auto_inline=AUTO, stubs=['seq_[A-Za-z0-9_]+__(push_back|size)', 'umap_[A-Za-z0-9_]+__size', 'opt_[A-Za-z0-9_]+__value'],
              setup=ADD_SETUP + '  static struct GenericQueryResponse gr; static struct opt_BlockStatistics st;\n', args=['&obj', '&gr', '&st'],
              props=['C04', 'C12', 'C17', 'C01', 'C02'], timeout=1800, split=True,
              note='all 2^18 x 2^17 hint masks and all presence patterns symbolically: a member is stored iff its hint bit is set and the value is '
                   'present, stored values equal the supplied ones, exactly one table insertion per stored reference, the record is pushed iff '
                   'non-empty, the array grows by at most one, the result is full(), the earliest-time invariant is preserved')]

TRUSTED_BASE = ['A7 table insertion wrappers add_ip_address/... return an index and add at most one entry (their implementation: bt.* units)',
                'A4/A5/A6 as in the item layer; std::vector::push_back appends a copy (captured as ghost "last pushed value")',
                'storage hint bit assignment from RFC 8618 section 7.3.1.1.1 (spec/rfc8618_maps.py)', 'cdns2c lowering; CBMC 6.11 dfcc; cadical']
ASSUMPTIONS = ['array sizes < 2^56']
