/* Item layer for the add_* units: no encoder/decoder, only library types. */
#include "rt_common.h"
#include "item_types.h"
_Bool nondet_bool(void);
