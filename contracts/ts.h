/* Timestamp arithmetic: instants as mathematical integers via 128-bit arithmetic. */
#include "rt_common.h"
typedef __int128 i128;
#define INST(t, r) ((i128)(t)->m_secs * (i128)(r) + (i128)(t)->m_ticks)
#define TWO63 ((i128)1 << 63)
unsigned long g_s0, g_t0;   /* entry values of m_secs/m_ticks */
i128 g_T;                    /* exact sum instant + offset (add_time_offset) */
/* machine instant: the 64-bit modular value the code computes, read as signed (== exact instant when < 2^63: lemma ts.lemma.modular) */
#define M64(t, r) ((long)((t)->m_secs * (r) + (t)->m_ticks))
#define M64G(r) ((long)(g_s0 * (r) + g_t0))
