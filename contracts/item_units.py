"""Item layer, writer side (C10, C02, C09, C01): every *::write against the byte-layer contracts (as token stubs),
contracts generated from the RFC 8618 tables in /verif/spec."""
import sys, os, re
sys.path.insert(0, os.path.join(os.path.dirname(os.path.abspath(__file__)), '..', 'spec'))
from driver import Unit
from ctypes_lower import LowerError, parse_type
import rfc8618_maps as RFC

P = 'item_enc.h'
EXT = ['CdnsEncoder']
ENC_STUBS = ['CdnsEncoder__write_map_start', 'CdnsEncoder__write_array_start', 'CdnsEncoder__write_indef_array_start',
             'CdnsEncoder__write_indef_map_start', 'CdnsEncoder__write_break', 'CdnsEncoder__write__b', 'CdnsEncoder__write__u8',
             'CdnsEncoder__write__u16', 'CdnsEncoder__write__u32', 'CdnsEncoder__write__u64', 'CdnsEncoder__write__i8',
             'CdnsEncoder__write__i16', 'CdnsEncoder__write__i32', 'CdnsEncoder__write__i64',
             'CdnsEncoder__write_textstring__p_str', 'CdnsEncoder__write_bytestring__p_str', 'enc_nested']
# callee writers seen through their contract (exactly one item, returns its byte count)
NESTED = [(r'^[A-Za-z]+__write$', '  return enc_nested($P1, 0);')]
TS_OFFSET = ('^Timestamp__get_time_offset$',
             '  if (g_exc) return 0;\n  if ($P2 == 0) { g_exc = EXC_runtime_error; return 0; }\n'
             '  return __CPROVER_uninterpreted_tsoff($P0->m_secs, $P0->m_ticks, $P1->m_secs, $P1->m_ticks, $P2);')
TS_OFF_SPEC = '((unsigned long)__CPROVER_uninterpreted_tsoff({t}.m_secs, {t}.m_ticks, $2->m_secs, $2->m_ticks, *$3))'

WREQ = '''
__CPROVER_requires(__CPROVER_w_ok($this, sizeof(*$this)) && g_exc == 0)
__CPROVER_requires(MON_FRESH && KT_FRESH && g_bytes == 0)
__CPROVER_assigns(g_mon, g_bytes, g_kcount, g_kkind, g_kval, g_curkey, g_keybad, g_ekind, g_eval, g_eseen, g_exc, kt_depth, kt_topmap, kt_isval, kt_left, kt_n, kt_topn, kt_pairs, kt_topleafs, kt_over)
__CPROVER_ensures(g_exc == 0)
__CPROVER_ensures($ret == g_bytes)
'''


def fields_of(ast, L, rec):
    out = {}
    for f in ast.records[rec].get('inner', []):
        if isinstance(f, dict) and f.get('kind') == 'FieldDecl':
            t = f['type'].get('desugaredQualType') or f['type']['qualType']
            out[f['name']] = t
    return out


def value_clause(L, kind, lv, key, extra_present='1'):
    """clauses that hold when the member is present; lv = C lvalue of the value"""
    K = '(g_K == %d && %s)' % (key, extra_present)
    if kind == 'uint':
        return ['%s ==> (g_kkind == K_UINT && g_kval == (unsigned long)%s)' % (K, lv)]
    if kind == 'int':
        return ['%s ==> (%s < 0 ? (g_kkind == K_NINT && g_kval == (unsigned long)(-1L - (long)%s)) : (g_kkind == K_UINT && g_kval == (unsigned long)%s))' % (K, lv, lv, lv)]
    if kind == 'bool':
        return ['%s ==> (g_kkind == K_BOOL && g_kval == (unsigned long)%s)' % (K, lv)]
    if kind == 'tstr':
        return ['%s ==> (g_kkind == K_TSTR && g_kval == %s.id)' % (K, lv)]
    if kind == 'bstr':
        return ['%s ==> (g_kkind == K_BSTR && g_kval == %s.id)' % (K, lv)]
    if kind.startswith('map:') or kind == 'time':
        return ['%s ==> g_kkind == K_NESTED' % K]
    if kind == 'offset':
        return ['%s ==> (g_kkind == K_UINT && g_kval == %s)' % (K, TS_OFF_SPEC.format(t=lv))]
    if kind.startswith('array:'):
        ek = kind[6:]
        cl = ['%s ==> (g_kkind == K_ARRAY && g_kval == %s.n)' % (K, lv)]
        W = '(g_K == %d && %s && g_Ei < %s.n && g_Ei == %s.wi)' % (key, extra_present, lv, lv)
        if ek == 'uint':
            cl.append('%s ==> (g_eseen && g_ekind == K_UINT && g_eval == (unsigned long)%s.wv)' % (W, lv))
        elif ek in ('tstr', 'bstr'):
            cl.append('%s ==> (g_eseen && g_ekind == K_%s && g_eval == %s.wv.id)' % (W, ek.upper(), lv))
        else:
            cl.append('%s ==> (g_eseen && g_ekind == K_NESTED)' % W)
        return cl
    raise LowerError('RFC table kind %r not handled by the contract generator' % kind)


def elem_clause(ek, seq):
    if ek == 'uint':
        return 'g_eseen && g_ekind == K_UINT && g_eval == (unsigned long)%s.wv' % seq
    if ek in ('tstr', 'bstr'):
        return 'g_eseen && g_ekind == K_%s && g_eval == %s.wv.id' % (ek.upper(), seq)
    return 'g_eseen && g_ekind == K_NESTED'


def map_writer_loops(rec, keymap=None):
    """loop contracts for the range-for loops that serialise list members (one per list member, generated)"""
    def gen(ast, L, tf):
        rows = {r[0]: r for r in (RFC.MAPS.get(rec) or [])}
        out = {}
        wl = [n for n, t in tf.locals if n == 'written']
        if not wl:
            raise LowerError('%s has no local named written' % tf.cname)
        for k, info in tf.loopinfo.items():
            seq = info['seq']
            member = seq.split('->')[-1].split('.')[-1]
            if keymap is not None:
                key, ek = keymap(member)
            else:
                if member not in rows:
                    raise LowerError('loop over %s in %s: no RFC row' % (member, tf.cname))
                key, ek = rows[member][1], rows[member][2][6:]
            i = info['counter']
            out[k] = '''
  __CPROVER_assigns(%(i)s, written, g_bytes, kt_left, kt_depth, kt_isval, g_ekind, g_eval, g_eseen, g_exc, %(cur)s)
  __CPROVER_loop_invariant(%(i)s <= %(seq)s.n && g_exc == 0 && written == g_bytes)
  __CPROVER_loop_invariant(%(i)s < %(seq)s.n ? (kt_depth == 2 && kt_left == %(seq)s.n - %(i)s) : (kt_depth == 1 && !kt_isval))
  __CPROVER_loop_invariant((g_K == %(key)d && g_Ei < %(i)s && g_Ei == %(seq)s.wi) ==> (%(ec)s))
  __CPROVER_loop_invariant(g_K != %(key)d ==> (g_eseen == __CPROVER_loop_entry(g_eseen) && g_ekind == __CPROVER_loop_entry(g_ekind) && g_eval == __CPROVER_loop_entry(g_eval)))
  __CPROVER_decreases(%(seq)s.n - %(i)s)
''' % {'i': i, 'seq': seq, 'key': key, 'ec': elem_clause(ek, seq), 'cur': info['m'] + '__cur'}
        return out
    return gen


def map_writer_contract(rec, strict_empty=True, empty_ok=False):
    def gen(ast, L, tf):
        rows = RFC.MAPS[rec]
        fl = fields_of(ast, L, rec)
        names = [r[0] for r in rows]
        extra = [f for f in fl if f not in names]
        missing = [n for n in names if n not in fl]
        if extra or missing:
            raise LowerError('RFC table and struct %s disagree: members without a row %s, rows without a member %s' % (rec, extra, missing))
        c = WREQ
        pres = []
        for fname, key, kind, mand in rows:
            cls, t = L.types.classify(fl[fname])
            lv = '$this->' + fname
            if cls == 'opt':
                if mand:
                    raise LowerError('%s.%s is mandatory in RFC 8618 but optional in the struct' % (rec, fname))
                p = lv + '.has'
                v = lv + '.val'
            elif cls in ('vec', 'deq'):
                p = '1' if mand else '(%s.n != 0)' % lv
                v = lv
                c += '__CPROVER_assigns(seq_%s__cur)\n' % L.types.mangle(t.args[0])     # scratch element of the abstract sequence
            else:
                # a plain member: always written
                p = '1'
                v = lv
            pres.append(p)
            c += '__CPROVER_ensures(g_K == %d ==> g_kcount == (%s ? 1UL : 0UL))\n' % (key, p)
            for cl in value_clause(L, kind, v, key, p):
                c += '__CPROVER_ensures(%s)\n' % cl
        if empty_ok:
            c += '__CPROVER_ensures((%s) ? KT_MAP_DONE : (KT_NOTHING && $ret == 0))\n' % ' || '.join(pres)
        else:
            c += '__CPROVER_ensures(KT_MAP_DONE)\n'
        keys = ' && '.join('g_K != %d' % r[1] for r in rows)
        c += '__CPROVER_ensures((%s) ==> g_kcount == 0)\n' % keys
        return c
    return gen


UNITS = []


def W(rec, uid=None, props=('C10', 'C02', 'C09', 'C01'), sig=None, setup_extra='', args=None, gen_stubs=None, **kw):
    setup = '  struct %s obj; struct CdnsEncoder enc;\n  mon_init();\n' % rec + setup_extra
    loops = kw.pop('loops', {})
    empty_ok = kw.pop('empty_ok', False)
    UNITS.append(Unit(uid or ('w.' + rec), (rec + '::write', sig), contract=map_writer_contract(rec, empty_ok=empty_ok), loops=loops, prelude=P,
                      extern_records=EXT, stubs=ENC_STUBS, gen_stubs=(gen_stubs or []) + NESTED, setup=setup,
                      args=args or ['&obj', '&enc'], props=list(props), timeout=900,
                      note='all member values and all presence patterns; one arbitrary watched key and watched array element', **kw))


for rec in ['StorageHints', 'ClassType', 'Question', 'RR', 'QueryResponseSignature', 'MalformedMessageData', 'ResponseProcessingData',
            'QueryResponseExtended', 'BlockStatistics', 'BlockPreamble', 'AddressEventCount', 'BlockParameters']:
    W(rec, props=('C10', 'C02', 'C01') + (('C09',) if rec in ('StorageHints', 'BlockParameters') else ()) + (('C04',) if rec == 'StorageHints' else ()))
TSARGS = '  struct Timestamp earliest; unsigned long tps;\n'
for rec in ['QueryResponse', 'MalformedMessage']:
    W(rec, setup_extra=TSARGS + '  __CPROVER_assume(tps >= 1);\n', args=['&obj', '&enc', '&earliest', '&tps'], gen_stubs=[TS_OFFSET], props=('C10', 'C02', 'C01', 'C17'), empty_ok=True)
SEQ_ASSUME = '  __CPROVER_assume(%s);\n'
W('StorageParameters', loops=map_writer_loops('StorageParameters'), props=('C10', 'C02', 'C09'),
  setup_extra='  __CPROVER_assume(obj.opcodes.n < (1UL << 60) && obj.rr_types.n < (1UL << 60));\n')
W('CollectionParameters', loops=map_writer_loops('CollectionParameters'), props=('C10', 'C02', 'C09'),
  setup_extra='  __CPROVER_assume(obj.interfaces.n < (1UL << 60) && obj.server_address.n < (1UL << 60) && obj.vlan_ids.n < (1UL << 60));\n')
W('FilePreamble', loops=map_writer_loops('FilePreamble'), props=('C10', 'C02', 'C09'),
  setup_extra='  __CPROVER_assume(obj.m_block_parameters.n < (1UL << 60));\n')

# ---------------------------------------------------------------- array / leaf writers
AWREQ = WREQ.replace('kt_over)', 'kt_over, seq_u32__cur)')
TS_W = WREQ + '''
__CPROVER_ensures(KT_ARRAY_DONE && kt_topn == 2)
__CPROVER_ensures(g_Ei == 0 ==> (g_eseen && g_ekind == K_UINT && g_eval == $this->m_secs))
__CPROVER_ensures(g_Ei == 1 ==> (g_eseen && g_ekind == K_UINT && g_eval == $this->m_ticks))
'''
UNITS.append(Unit('w.Timestamp', ('Timestamp::write', None), contract=TS_W, prelude=P, extern_records=EXT, stubs=ENC_STUBS,
                  setup='  struct Timestamp obj; struct CdnsEncoder enc;\n  mon_init();\n', args=['&obj', '&enc'],
                  props=['C10', 'C02', 'C01', 'C17'], note='[secs, ticks] as a 2-element array'))
SI_W = WREQ + '''
__CPROVER_ensures(KT_LEAF_DONE && g_eseen && g_ekind == K_BSTR && g_eval == $this->data.id)
'''
UNITS.append(Unit('w.StringItem', ('StringItem::write', None), contract=SI_W, prelude=P, extern_records=EXT, stubs=ENC_STUBS,
                  setup='  struct StringItem obj; struct CdnsEncoder enc;\n  mon_init();\n', args=['&obj', '&enc'],
                  props=['C10', 'C02', 'C01'], note='one byte string with the stored bytes'))
ILI_W = AWREQ + '''
__CPROVER_requires($this->list.n < (1UL << 60))
__CPROVER_ensures(KT_ARRAY_DONE && kt_topn == $this->list.n)
__CPROVER_ensures((g_Ei < $this->list.n && g_Ei == $this->list.wi) ==> (g_eseen && g_ekind == K_UINT && g_eval == (unsigned long)$this->list.wv))
'''
ILI_LOOP = '''
  __CPROVER_assigns($L2, $L1, g_bytes, kt_left, g_ekind, g_eval, g_eseen, g_exc, seq_u32__cur)
  __CPROVER_loop_invariant($L2 <= $this->list.n && g_exc == 0 && $L1 == g_bytes)
  __CPROVER_loop_invariant(kt_depth == 1 && !kt_topmap && kt_left == $this->list.n - $L2 && !kt_over && !g_keybad && kt_n == $this->list.n)
  __CPROVER_loop_invariant((g_Ei < $L2 && g_Ei == $this->list.wi) ==> (g_eseen && g_ekind == K_UINT && g_eval == (unsigned long)$this->list.wv))
  __CPROVER_decreases($this->list.n - $L2)
'''
UNITS.append(Unit('w.IndexListItem', ('IndexListItem::write', None), contract=ILI_W, loops={1: ILI_LOOP}, prelude=P, extern_records=EXT,
                  stubs=ENC_STUBS, setup='  struct IndexListItem obj; struct CdnsEncoder enc;\n  mon_init();\n  __CPROVER_assume(obj.list.n < (1UL << 60));\n',
                  args=['&obj', '&enc'], props=['C10', 'C02', 'C01'], note='array of the stored indices in order, any length incl. 0'))

TRUSTED_BASE = [
    'A13(ii) byte-layer contracts of CdnsEncoder (discharged in enc.* units) reduced to tokens: each encoder operation returns '
    'exactly the RFC 8949 length of what it appends and emits one token',
    'A4 boost::optional = {has,val}; A5 std::string = (length, content identity); A6 std::vector = abstract sequence with one watched element',
    'callee writers are replaced by executable stubs of their contract "emits exactly one item and returns its byte count" '
    '(each discharged in the callee\'s own unit w.<Struct>)',
    'RFC 8618 tables in /verif/spec/rfc8618_maps.py (transcribed, independent of format_specification.h)',
    'A13(iv) the grammar monitor is verified from the canonical entry state (one item expected at level 0); its effect is '
    'independent of the enclosing stack',
    'cdns2c lowering; CBMC 6.11 dfcc; cadical',
]
ASSUMPTIONS = ['sequence sizes < 2^62', 'the encoder does not fail in these units (faults are C16)']
