/* BlockTable<T> itself (C11, C03): the real template instantiation over abstract containers.
 * items_ (std::deque<T>): abstract sequence with one watched element (A6); references to elements stay valid on push_back (std::deque).
 * indexes_ (std::unordered_map<KeyRef<T>, index_t, hash>) (A8): whether a key equal to the queried one is present is arbitrary but fixed
 * per run (g_present) and so is the index stored under it (g_pidx); representation invariant assumed on lookup, checked on store:
 * a stored index is below items_.size() and the key it is stored under refers to the stored element with that index.
 * That an *equal* key is found when present rests on std::unordered_map and on the equality/hash agreement (bt.eqhash.* units). */
#include "rt_common.h"
#include "item_types.h"
_Bool nondet_bool(void); unsigned long nondet_ulong(void);
_Bool g_present; unsigned long g_pidx;
unsigned long g_finds, g_stores;
void *g_qkey;          /* key object the caller asked about */
void *g_find_key;      /* key object the map was queried with / stored under (last) */
void *g_last_entry;    /* the index-map entry the last operator[] handed out */
#ifdef BTR_REDRAW       /* units with several stores (rebuild of the index): each store may meet a new or an existing key */
#define BTR_DRAW g_present = nondet_bool();
#else
#define BTR_DRAW
#endif
#undef DECL_UMAP
#define DECL_UMAP(N, K, V) DECL_SEQ_(umap_, N, struct pair_##N) \
  static inline struct pair_##N *umap_##N##__find(struct umap_##N *s, K *k) { \
    if (g_finds < 1000) g_finds++; g_find_key = (void *)k->key_; \
    if (!g_present) return (struct pair_##N *)0; \
    struct pair_##N fresh; fresh.first = *k; fresh.second = (V)g_pidx; umap_##N##__cur = fresh; return &umap_##N##__cur; } \
  /* operator[]: a new key is appended (it becomes the watched entry if it lands on the watched position); an existing equal key keeps its \
     stored key object and may be the watched entry */ \
  static inline V *umap_##N##__index(struct umap_##N *s, K *k) { \
    struct pair_##N *e; struct pair_##N fresh; \
    if (g_stores < 1000) g_stores++; g_find_key = (void *)k->key_; \
    BTR_DRAW \
    if (!g_present) { e = (s->n == s->wi) ? &s->wv : &umap_##N##__cur; s->n++; fresh.first = *k; *e = fresh; } \
    else if (s->wi < s->n && nondet_bool()) { e = &s->wv; } \
    else { e = &umap_##N##__cur; fresh.first = *k; fresh.second = (V)g_pidx; *e = fresh; } \
    g_last_entry = (void *)e; return &e->second; }
