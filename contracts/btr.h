/* BlockTable<T> itself (C11, C03): the real template instantiation over abstract containers.
 * items_ (std::deque<T>): abstract sequence with one watched element (A6); references to elements stay valid on push_back (std::deque).
 * indexes_ (std::unordered_map<KeyRef<T>, index_t, hash>) (A8): whether a key equal to the queried one is present is arbitrary but fixed
 * per run (g_present) and so is the index stored under it (g_pidx); representation invariant assumed on lookup, checked on store:
 * a stored index is below items_.size() and the key it is stored under refers to the stored element with that index.
 * That an *equal* key is found when present rests on std::unordered_map and on the equality/hash agreement (bt.eqhash.* units). */
#include "rt_common.h"
#include "item_types.h"
_Bool nondet_bool(void); unsigned long nondet_ulong(void);
_Bool g_present; unsigned long g_pidx;
unsigned long g_finds, g_stores;
void *g_qkey;          /* key object the caller asked about */
void *g_find_key;      /* key object the map was queried with / stored under (last) */
#undef DECL_UMAP
#define DECL_UMAP(N, K, V) DECL_SEQ_(umap_, N, struct pair_##N) \
  static inline struct pair_##N *umap_##N##__find(struct umap_##N *s, K *k) { \
    if (g_finds < 1000) g_finds++; g_find_key = (void *)k->key_; \
    if (!g_present) return (struct pair_##N *)0; \
    struct pair_##N fresh; fresh.first = *k; fresh.second = (V)g_pidx; umap_##N##__cur = fresh; return &umap_##N##__cur; } \
  static inline V *umap_##N##__index(struct umap_##N *s, K *k) { \
    if (g_stores < 1000) g_stores++; g_find_key = (void *)k->key_; \
    if (!g_present) { s->n++; } \
    struct pair_##N fresh; fresh.first = *k; fresh.second = (V)g_pidx; umap_##N##__cur = fresh; return &umap_##N##__cur.second; }
