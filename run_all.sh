#!/bin/sh
# runs every claimed check once (quick tier) and reports exit codes and wall times
cd /verif
for p in "$@"; do
  s=$(date +%s)
  ./check $p --tier ${TIER:-quick} > /tmp/w/check_$p.log 2>&1
  rc=$?
  e=$(date +%s)
  echo "$p rc=$rc $((e-s))s $(tail -1 /tmp/w/check_$p.log)"
done
